"""Supervisor library: builds runner variants, spawns shards, attributes crashes, merges
statistics, applies known findings, writes evidence and replay files."""
import fcntl
import hashlib
import json
import os
import resource
import shutil
import signal
import subprocess
import sys
import threading
import time

VERIF = os.path.dirname(os.path.dirname(os.path.abspath(__file__)))
HARNESS = os.path.join(VERIF, "harness")
BUILD = os.path.join(VERIF, ".build")
BIN = os.path.join(BUILD, "bin")
TARGET = os.path.join(BUILD, "target")
EVIDENCE = os.path.join(VERIF, "evidence")
REPLAYS = os.path.join(VERIF, "replays")
KNOWN = os.path.join(VERIF, "known_findings.json")
NCPU = min(16, os.cpu_count() or 4)

BASE_FEATURES = "hooks,re-std,re-pikevm,uni"

# name -> (toolchain, profile, cargo feature list, no-default-features?, extra env, extra cargo args)
VARIANTS = {
    "dbg": dict(profile="dbg", features=BASE_FEATURES),
    "rel": dict(profile="rel", features=BASE_FEATURES),
    "idx": dict(profile="dbg", features=BASE_FEATURES + ",idx"),
    "safe": dict(profile="dbg", features=BASE_FEATURES + ",safe"),
    "idxsafe": dict(profile="dbg", features=BASE_FEATURES + ",idx,safe"),
    "utf16": dict(profile="dbg", features=BASE_FEATURES + ",utf16"),
    "nostd": dict(profile="dbg", features="nostd,re-pikevm,uni"),
    "pattern": dict(toolchain="nightly", profile="dbg", features=BASE_FEATURES + ",pattern"),
    "asan": dict(
        toolchain="nightly",
        profile="rel",
        features=BASE_FEATURES,
        rustflags="-Zsanitizer=address -Cforce-frame-pointers=yes",
        target="x86_64-unknown-linux-gnu",
        target_dir="target-asan",
    ),
    "asan16": dict(
        toolchain="nightly",
        profile="rel",
        features=BASE_FEATURES + ",utf16",
        rustflags="-Zsanitizer=address -Cforce-frame-pointers=yes",
        target="x86_64-unknown-linux-gnu",
        target_dir="target-asan",
    ),
    "tsan": dict(
        toolchain="nightly",
        profile="rel",
        features=BASE_FEATURES,
        rustflags="-Zsanitizer=thread",
        target="x86_64-unknown-linux-gnu",
        target_dir="target-tsan",
        cargo_args=["-Zbuild-std"],
    ),
}


SETUP_VARIANTS = ["dbg"]


class HarnessError(Exception):
    pass


def log(msg):
    sys.stderr.write("[check] %s\n" % msg)
    sys.stderr.flush()


def cargo_env(v):
    env = dict(os.environ)
    env["CARGO_NET_OFFLINE"] = "true"
    env.pop("RUSTFLAGS", None)
    if v.get("rustflags"):
        env["RUSTFLAGS"] = v["rustflags"]
    return env


def build(variant):
    """Build (or refresh) one runner variant from /repo's current working tree; return its path."""
    v = VARIANTS[variant]
    os.makedirs(BIN, exist_ok=True)
    lockf = open(os.path.join(BUILD, ".lock-" + v.get("target_dir", "target")), "w")
    fcntl.flock(lockf, fcntl.LOCK_EX)
    try:
        tdir = os.path.join(BUILD, v.get("target_dir", "target"))
        cmd = ["cargo"]
        if v.get("toolchain"):
            cmd.append("+" + v["toolchain"])
        cmd += ["build", "--profile", v["profile"], "--no-default-features", "--features", v["features"], "--target-dir", tdir, "--bin", "vrun"]
        if v.get("target"):
            cmd += ["--target", v["target"]]
        cmd += v.get("cargo_args", [])
        t0 = time.time()
        p = subprocess.run(cmd, cwd=HARNESS, env=cargo_env(v), stdout=subprocess.PIPE, stderr=subprocess.STDOUT, text=True)
        if p.returncode != 0:
            tail = "\n".join(p.stdout.splitlines()[-40:])
            raise HarnessError("build of variant %s failed:\n%s" % (variant, tail))
        out = os.path.join(tdir, v["target"], v["profile"], "vrun") if v.get("target") else os.path.join(tdir, v["profile"], "vrun")
        dst = os.path.join(BIN, "vrun-" + variant)
        tmp = dst + ".tmp%d" % os.getpid()
        shutil.copy2(out, tmp)
        os.replace(tmp, dst)
        log("built %s in %.1fs" % (variant, time.time() - t0))
        return dst
    finally:
        fcntl.flock(lockf, fcntl.LOCK_UN)
        lockf.close()


class Merged:
    def __init__(self):
        self.counters = {}
        self.maxima = {}
        self.samples = []
        self.notes = []
        self.violations = []  # parsed V objects
        self.known = []
        self.crashes = []  # dicts
        self.replay_held = []
        self.incomplete = 0
        self.wall = 0.0

    def absorb_stats(self, s):
        for k, v in s.get("counters", {}).items():
            self.counters[k] = self.counters.get(k, 0) + v
        for k, v in s.get("maxima", {}).items():
            self.maxima[k] = max(self.maxima.get(k, 0), v)
        self.samples += s.get("samples", [])
        self.notes += s.get("notes", [])

    def merge(self, other):
        for k, v in other.counters.items():
            self.counters[k] = self.counters.get(k, 0) + v
        for k, v in other.maxima.items():
            self.maxima[k] = max(self.maxima.get(k, 0), v)
        self.samples += other.samples
        self.notes += other.notes
        self.violations += other.violations
        self.known += other.known
        self.crashes += other.crashes
        self.incomplete += other.incomplete
        self.replay_held += other.replay_held

    def c(self, k):
        return self.counters.get(k, 0)


def _limits(mem_gb):
    def f():
        if mem_gb:
            b = int(mem_gb * (1 << 30))
            resource.setrlimit(resource.RLIMIT_AS, (b, b))
        resource.setrlimit(resource.RLIMIT_CORE, (0, 0))
        os.setsid()

    return f


def run_one(binary, args, timeout, mem_gb, env=None, wrapper=None):
    """Run one runner process; returns (lines, returncode, stderr_tail, timed_out)."""
    cmd = (wrapper or []) + [binary] + args
    e = dict(os.environ)
    if env:
        e.update(env)
    p = subprocess.Popen(cmd, stdout=subprocess.PIPE, stderr=subprocess.PIPE, text=True, errors="replace", preexec_fn=_limits(mem_gb), env=e)
    lines = []
    err = []

    def rd_err():
        for l in p.stderr:
            err.append(l)
            if len(err) > 400:
                del err[:200]

    t = threading.Thread(target=rd_err, daemon=True)
    t.start()
    timed_out = [False]

    def kill():
        timed_out[0] = True
        try:
            os.killpg(p.pid, signal.SIGKILL)
        except Exception:
            pass

    timer = threading.Timer(timeout, kill)
    timer.start()
    try:
        for l in p.stdout:
            lines.append(l.rstrip("\n"))
    finally:
        p.wait()
        timer.cancel()
        t.join(timeout=2)
    return lines, p.returncode, "".join(err[-60:]), timed_out[0]


def run_shard(binary, check, tier, seed, shard, nshards, scale, opts, timeout, mem_gb, env, wrapper, crash_property, out, max_restarts=6):
    resume = None
    restarts = 0
    t_end = time.time() + timeout
    while True:
        args = [check, "--tier", tier, "--seed", str(seed), "--shard", "%d/%d" % (shard, nshards), "--scale", str(scale)]
        for k, v in (opts or {}).items():
            args += ["--opt", "%s=%s" % (k, v)]
        if resume is not None:
            args += ["--resume-after", str(resume)]
        remaining = max(5.0, t_end - time.time())
        lines, rc, err, timed_out = run_one(binary, args, remaining, mem_gb, env, wrapper)
        last_b = None
        got_stats = False
        for l in lines:
            if l.startswith("B "):
                last_b = l[2:]
            elif l.startswith("V "):
                try:
                    out.violations.append(json.loads(l[2:]))
                except Exception as ex:
                    out.notes.append("unparsable V line: %s (%s)" % (l[:200], ex))
            elif l.startswith("K "):
                try:
                    out.known.append(json.loads(l[2:]))
                except Exception:
                    pass
            elif l.startswith("S "):
                try:
                    out.absorb_stats(json.loads(l[2:]))
                    got_stats = True
                except Exception as ex:
                    out.notes.append("unparsable S line (%s)" % ex)
            elif l.startswith("REPLAY-HELD"):
                out.replay_held.append(l)
        if rc == 0 and got_stats:
            return
        if timed_out:
            out.incomplete += 1
            out.notes.append("shard %d stopped by the wall-clock watchdog (inconclusive, not a violation); last program: %s" % (shard, (last_b or "")[:300]))
            return
        if rc == 2:
            raise HarnessError("runner usage/harness error (rc=2): %s" % err[-2000:])
        if rc == 3:
            raise HarnessError("runner worker thread panicked (harness bug): %s" % err[-2000:])
        # abnormal death: attribute to the last announced program
        idx = None
        desc = None
        if last_b:
            try:
                i, d = last_b.split("\t", 1)
                idx = int(i)
                desc = json.loads(d)
            except Exception:
                pass
        sig = -rc if rc is not None and rc < 0 else None
        out.crashes.append(dict(shard=shard, returncode=rc, signal=sig, program_index=idx, program=desc, stderr_tail=err[-3000:], property=crash_property))
        restarts += 1
        if idx is None or restarts > max_restarts:
            out.incomplete += 1
            return
        resume = idx


def run_shards(variant, check, tier, seed, scale=1.0, opts=None, nshards=NCPU, timeout=3600, mem_gb=6, env=None, wrapper=None, crash_property="C06", binary=None, parallel=None):
    binary = binary or os.path.join(BIN, "vrun-" + variant)
    out = Merged()
    t0 = time.time()
    parts = [Merged() for _ in range(nshards)]
    errors = []
    sem = threading.Semaphore(parallel or NCPU)

    def work(i):
        with sem:
            try:
                run_shard(binary, check, tier, seed, i, nshards, scale, opts, timeout, mem_gb, env, wrapper, crash_property, parts[i])
            except Exception as ex:  # noqa
                errors.append(ex)

    ths = [threading.Thread(target=work, args=(i,)) for i in range(nshards)]
    for t in ths:
        t.start()
    for t in ths:
        t.join()
    if errors:
        raise errors[0]
    for p in parts:
        out.merge(p)
    out.wall = time.time() - t0
    return out


# ------------------------------------------------------------------------------------------
# known findings


def load_known():
    try:
        with open(KNOWN) as f:
            return json.load(f)
    except FileNotFoundError:
        return {"findings": [], "fixed": []}


def vkey(v):
    """A stable identity for a violation: property + (shrunk) pattern + flags + haystack + start."""
    case = v.get("shrunk") or v.get("case") or {}
    return dict(
        property=v.get("property"),
        pattern_cps=case.get("pattern_cps"),
        flags=case.get("flags"),
        haystack_hex=case.get("haystack_hex"),
        start=case.get("start"),
    )


def matches_finding(f, v):
    sig = f.get("signature", {})
    for case in [v.get("shrunk"), v.get("case")]:
        if not case:
            continue
        ok = True
        for k, want in sig.items():
            if k == "property":
                continue
            if case.get(k) != want and v.get(k) != want:
                ok = False
                break
        if ok:
            return True
    return False


# ------------------------------------------------------------------------------------------
# output


def write_replay(pid, v):
    os.makedirs(REPLAYS, exist_ok=True)
    blob = json.dumps(v, sort_keys=True, ensure_ascii=False)
    h = hashlib.sha1(blob.encode("utf-8", "replace")).hexdigest()[:12]
    path = os.path.join(REPLAYS, "%s-%s.json" % (pid, h))
    with open(path, "w") as f:
        json.dump(v, f, indent=1, ensure_ascii=False)
    return path


def write_evidence(pid, tier, seed, coverage, assumptions, wall, violations, level="exploration"):
    os.makedirs(EVIDENCE, exist_ok=True)
    ev = dict(property_id=pid, tier=tier, seed=int(seed), level=level, coverage=coverage, assumptions=assumptions, wall_s=round(wall, 2), violations=int(violations))
    path = os.path.join(EVIDENCE, pid + ".json")
    tmp = path + ".tmp"
    with open(tmp, "w") as f:
        json.dump(ev, f, indent=1, ensure_ascii=False, sort_keys=False)
    os.replace(tmp, path)
    return path


def group_counters(counters, prefix):
    return {k[len(prefix):]: v for k, v in sorted(counters.items()) if k.startswith(prefix)}


def finish(pid, tier, seed, merged, rule, assumptions, extra_cov=None, required=None, exhaustive=None, t0=None):
    """Decide the verdict, print VIOLATION / KNOWN-FINDING lines, write evidence, return exit code."""
    known = load_known()
    findings = [f for f in known.get("findings", []) if f.get("property") == pid]
    new_violations = []
    known_hits = {}
    seen_keys = set()
    # crashes are violations of the crash property, reported under this check's id
    for c in merged.crashes:
        v = dict(property=pid, detail_property=c.get("property"), what="runner process died (signal %s, rc %s) while running this program" % (c.get("signal"), c.get("returncode")), case=c.get("program") or {}, observed=c.get("stderr_tail", "")[-1500:], expected="the call returns")
        merged.violations.append(v)
    for v in merged.violations:
        detail = v.get("property")
        hit = None
        for f in findings:
            if matches_finding(f, v):
                hit = f
                break
        if hit is not None:
            known_hits.setdefault(hit.get("id"), (hit, v))
            continue
        key = json.dumps(vkey(v), sort_keys=True)
        if key in seen_keys:
            continue
        seen_keys.add(key)
        v = dict(v)
        v["detail_property"] = detail
        v["property"] = pid
        new_violations.append(v)
    for kv in merged.known:
        fid = kv.get("id")
        for f in findings:
            if f.get("id") == fid:
                known_hits.setdefault(fid, (f, kv))
    for fid, (f, v) in sorted(known_hits.items()):
        print("KNOWN-FINDING: property=%s %s [%s]" % (pid, f.get("what_fails", ""), fid))
    rc = 0
    for v in new_violations[:40]:
        path = write_replay(pid, v)
        sh = v.get("shrunk") or v.get("case") or {}
        log("violation (%s): %s | pattern=%r flags=%r haystack=%r start=%r | observed: %s | expected: %s" % (v.get("detail_property"), v.get("what"), sh.get("pattern"), sh.get("flags"), sh.get("haystack"), sh.get("start"), str(sh.get("observed", v.get("observed")))[:300], str(sh.get("expected", v.get("expected")))[:300]))
        print("VIOLATION property=%s replay=%s" % (pid, path))
        rc = 1
    c = merged.counters
    cov = dict(
        evaluations=int(c.get("evaluations", 0)),
        distinct_nontrivial=int(c.get("distinct_nontrivial", 0)),
        rule=rule,
        samples=merged.samples[:12],
        programs=int(c.get("programs", 0)),
        inconclusive=group_counters(c, "inconclusive"),
        skipped=group_counters(c, "skipped."),
        crashes=len(merged.crashes),
        incomplete_shards=merged.incomplete,
        known_findings_replayed=sorted(known_hits.keys()),
        notes=merged.notes[:20],
    )
    if exhaustive is not None:
        cov["exhaustive"] = bool(exhaustive)
    prof = group_counters(c, "hook.")
    if prof:
        cov["opcode_profile"] = prof
    if merged.maxima:
        cov["maxima"] = merged.maxima
    if extra_cov:
        cov.update(extra_cov)
    wall = (time.time() - t0) if t0 else merged.wall
    write_evidence(pid, tier, seed, cov, assumptions, wall, len(new_violations))
    if rc == 0:
        problems = []
        if cov["evaluations"] < 1 or cov["distinct_nontrivial"] < 2:
            problems.append("the monitor observed nothing non-trivial (evaluations=%d distinct_nontrivial=%d)" % (cov["evaluations"], cov["distinct_nontrivial"]))
        for k in required or []:
            if c.get(k, 0) <= 0:
                problems.append("required observation %r was never made" % k)
        if problems:
            for p in problems:
                log("INCONCLUSIVE RUN: " + p)
            return 2
    log("%s %s seed=%s: evaluations=%d distinct_nontrivial=%d programs=%d violations=%d known=%d inconclusive=%s wall=%.1fs" % (pid, tier, seed, cov["evaluations"], cov["distinct_nontrivial"], cov["programs"], len(new_violations), len(known_hits), cov["inconclusive"].get("", 0), wall))
    return rc


# ------------------------------------------------------------------------------------------
# check definitions

ASSUME_COMMON = [
    "held on the executions listed here only; nothing is proved",
    "runner built from /repo's working tree with the 'verif' hook feature; crate debug assertions enabled in the dbg variant",
]


def simple_check(pid, vcheck, rule, assumptions, variant="dbg", required=None, extra=None, crash_property="C06", mem_gb=6):
    def run(tier, seed, replay=None):
        t0 = time.time()
        build(variant)
        if replay:
            return do_replay(pid, variant, vcheck, replay)
        m = run_shards(variant, vcheck, tier, seed, crash_property=crash_property, timeout=7200 if tier == "thorough" else 1500, mem_gb=mem_gb)
        extra_cov = extra(m) if extra else None
        return finish(pid, tier, seed, m, rule, ASSUME_COMMON + assumptions, extra_cov=extra_cov, required=required, t0=t0)

    return run


def do_replay(pid, variant, vcheck, path):
    binary = os.path.join(BIN, "vrun-" + variant)
    lines, rc, err, to = run_one(binary, [vcheck, "--replay", path], 600, 6)
    viol = [l for l in lines if l.startswith("V ")]
    for l in lines:
        if l.startswith("REPLAY-HELD"):
            print(l)
    if rc not in (0,):
        print("replay: runner died rc=%s\n%s" % (rc, err[-2000:]))
        print("VIOLATION property=%s replay=%s" % (pid, path))
        return 1
    if viol:
        v = json.loads(viol[0][2:])
        print("replay: still violated: %s\n  observed: %s\n  expected: %s" % (v.get("what"), v.get("observed"), v.get("expected")))
        print("VIOLATION property=%s replay=%s" % (pid, path))
        return 1
    print("replay: held")
    return 0


def c04_extra(m):
    return dict(predicate_kinds=group_counters(m.counters, "predicate."), predicate_kinds_with_match=group_counters(m.counters, "predicate_matched."), predicate_kinds_without_match=group_counters(m.counters, "predicate_unmatched."))


def c03_extra(m):
    return dict(rewrites_fired=group_counters(m.counters, "rewrites."))


def c01_extra(m):
    return dict(esref_events=group_counters(m.counters, "esref."), pattern_features=group_counters(m.counters, "feat."))


def c13_extra(m):
    return dict(programs_mentioning_nonascii=m.c("programs_mentioning_nonascii"), pairs_with_nonascii_pattern=m.c("pairs_with_nonascii_pattern"))


PRED_KINDS = ["Arbitrary", "ByteSet1", "ByteSet2", "ByteSet3", "ByteSeq", "ByteBracket", "StartAnchored"]

RULE_PROGRAMS = (
    "programs = fixed corpus + every pattern of the small-scope enumeration (ASTs over {a,b,.,[ab],\\1,(?:),^,$,\\b} x cat/alt/group/10 quantifiers/4 lookarounds up to the node bound in maxima.enum_nodes, under 4-5 flag sets)"
    " + seeded structured random patterns over all 24 flag sets; per program every haystack up to a length bound over its relevant alphabet (mentioned characters, case partners, an unrelated character, a newline) plus longer random and pattern-derived haystacks, from every char-boundary start offset."
    " A case is (program, haystack, start); distinct by hash; "
)

CHECKS = {
    "C01": simple_check(
        "C01",
        "c01",
        RULE_PROGRAMS + "non-trivial iff the pattern has a quantifier/group/alternation/lookaround/backreference and the reference model found a match or took more than 8 steps.",
        ["the oracle is esref, an independent implementation of ECMA-262 22.2 written for this purpose (its reading of the specification is the trusted base)", "cases where esref exceeds its own step/depth budget or lacks Unicode data are inconclusive and excluded"],
        extra=c01_extra,
    ),
    "C02": simple_check(
        "C02",
        "c02",
        RULE_PROGRAMS + "non-trivial iff the backtracking executor found at least one match.",
        ["pure differential monitor between the two executors inside one process; both sides also pass the C06 range monitor"],
        required=["ascii_pairs", "hook.site.pike_step", "hook.site.bt_pop"],
    ),
    "C03": simple_check(
        "C03",
        "c03",
        RULE_PROGRAMS + "non-trivial iff the optimized regex found at least one match.",
        ["differential monitor between Flags::no_opt and the default; which rewrites fired is observed by comparing the two emitted programs through the hook"],
        required=["rewrites.byteseq_formed", "rewrites.byteseq_long_formed", "rewrites.loop1char_formed", "rewrites.unrolled_or_grew", "rewrites.literal_chunked", "rewrites.early_fail", "rewrites.literal_in_program_with_lookbehind", "rewrites.bracket_simplified"],
        extra=c03_extra,
    ),
    "C04": simple_check(
        "C04",
        "c04",
        RULE_PROGRAMS + "non-trivial iff a non-Arbitrary start predicate was chosen and the regex with predicate Arbitrary found at least one match.",
        ["the comparison program is the same bytecode with StartPredicate::Arbitrary (hook with_arbitrary_start_pred)"],
        required=["predicate_matched." + k for k in PRED_KINDS] + ["predicate_unmatched." + k for k in PRED_KINDS],
        extra=c04_extra,
    ),
    "C13": simple_check(
        "C13",
        "c13",
        RULE_PROGRAMS + "haystacks are ASCII only, every byte offset is a start; non-trivial iff the UTF-8 entry point found at least one match.",
        ["differential monitor between find_from_ascii and find_from"],
        required=["pairs_with_nonascii_pattern"],
        extra=c13_extra,
    ),
}


def main(argv):
    if not argv:
        print(__doc__)
        return 2
    pid = argv[0].upper()
    tier = os.environ.get("VERIF_TIER") or "quick"
    replay = None
    rest = argv[1:]
    i = 0
    while i < len(rest):
        if rest[i] == "--replay":
            replay = rest[i + 1]
            i += 2
        elif rest[i] in ("quick", "thorough"):
            if not os.environ.get("VERIF_TIER"):
                tier = rest[i]
            i += 1
        else:
            print("unknown argument %r" % rest[i])
            return 2
    if tier not in ("quick", "thorough"):
        tier = "quick"
    try:
        seed = int(os.environ.get("VERIF_SEED", "1"))
    except ValueError:
        seed = 1
    if pid not in CHECKS:
        print("unknown check %s" % pid)
        return 2
    try:
        return CHECKS[pid](tier, seed, replay)
    except HarnessError as e:
        log("HARNESS ERROR: %s" % e)
        return 2
