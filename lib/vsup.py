"""Supervisor library: builds runner variants, spawns shards, attributes crashes, merges
statistics, applies known findings, writes evidence and replay files."""
import fcntl
import hashlib
import json
import os
import resource
import shutil
import signal
import subprocess
import sys
import threading
import time

VERIF = os.path.dirname(os.path.dirname(os.path.abspath(__file__)))
HARNESS = os.path.join(VERIF, "harness")
BUILD = os.path.join(VERIF, ".build")
BIN = os.path.join(BUILD, "bin")
TARGET = os.path.join(BUILD, "target")
EVIDENCE = os.path.join(VERIF, "evidence")
REPLAYS = os.path.join(VERIF, "replays")
KNOWN = os.path.join(VERIF, "known_findings.json")
NCPU = min(16, os.cpu_count() or 4)

BASE_FEATURES = "hooks,re-std,re-pikevm,uni"

# name -> (toolchain, profile, cargo feature list, no-default-features?, extra env, extra cargo args)
VARIANTS = {
    "dbg": dict(profile="dbg", features=BASE_FEATURES),
    "rel": dict(profile="rel", features=BASE_FEATURES),
    "idx": dict(profile="dbg", features=BASE_FEATURES + ",idx"),
    "safe": dict(profile="dbg", features=BASE_FEATURES + ",safe"),
    "idxsafe": dict(profile="dbg", features=BASE_FEATURES + ",idx,safe"),
    "utf16": dict(profile="dbg", features=BASE_FEATURES + ",utf16"),
    "nostd": dict(profile="dbg", features="nostd,re-pikevm,uni"),
    "pattern": dict(toolchain="nightly", profile="dbg", features=BASE_FEATURES + ",pattern", target_dir="target-nightly"),
    "asan": dict(
        toolchain="nightly",
        profile="rel",
        features=BASE_FEATURES,
        rustflags="-Zsanitizer=address -Cforce-frame-pointers=yes",
        target="x86_64-unknown-linux-gnu",
        target_dir="target-asan",
    ),
    "asan16": dict(
        toolchain="nightly",
        profile="rel",
        features=BASE_FEATURES + ",utf16",
        rustflags="-Zsanitizer=address -Cforce-frame-pointers=yes",
        target="x86_64-unknown-linux-gnu",
        target_dir="target-asan16",
    ),
    "tsan": dict(
        toolchain="nightly",
        profile="rel",
        features=BASE_FEATURES,
        rustflags="-Zsanitizer=thread",
        target="x86_64-unknown-linux-gnu",
        target_dir="target-tsan",
        cargo_args=["-Zbuild-std"],
    ),
}


SETUP_VARIANTS = ["dbg", "idx", "safe", "idxsafe", "utf16", "nostd", "pattern", "asan", "miri"]


class HarnessError(Exception):
    pass


def log(msg):
    sys.stderr.write("[check] %s\n" % msg)
    sys.stderr.flush()


def cargo_env(v):
    env = dict(os.environ)
    env["CARGO_NET_OFFLINE"] = "true"
    env.pop("RUSTFLAGS", None)
    if v.get("rustflags"):
        env["RUSTFLAGS"] = v["rustflags"]
    return env


def build(variant):
    """Build (or refresh) one runner variant from /repo's current working tree; return its path."""
    v = VARIANTS[variant]
    os.makedirs(BIN, exist_ok=True)
    lockf = open(os.path.join(BUILD, ".lock-" + v.get("target_dir", "target")), "w")
    fcntl.flock(lockf, fcntl.LOCK_EX)
    try:
        tdir = os.path.join(BUILD, v.get("target_dir", "target"))
        cmd = ["cargo"]
        if v.get("toolchain"):
            cmd.append("+" + v["toolchain"])
        cmd += ["build", "--profile", v["profile"], "--no-default-features", "--features", v["features"], "--target-dir", tdir, "--bin", "vrun"]
        if v.get("target"):
            cmd += ["--target", v["target"]]
        cmd += v.get("cargo_args", [])
        t0 = time.time()
        p = subprocess.run(cmd, cwd=HARNESS, env=cargo_env(v), stdout=subprocess.PIPE, stderr=subprocess.STDOUT, text=True)
        if p.returncode != 0:
            lines = p.stdout.splitlines()
            # the error blocks themselves (warnings can push them out of the tail)
            errs = []
            for i, l in enumerate(lines):
                if l.startswith("error"):
                    errs += lines[i : i + 12]
            tail = "\n".join(errs[:120] + ["..."] + lines[-15:])
            raise HarnessError("build of variant %s failed:\n%s" % (variant, tail))
        out = os.path.join(tdir, v["target"], v["profile"], "vrun") if v.get("target") else os.path.join(tdir, v["profile"], "vrun")
        dst = os.path.join(BIN, "vrun-" + variant)
        tmp = dst + ".tmp%d" % os.getpid()
        shutil.copy2(out, tmp)
        os.replace(tmp, dst)
        log("built %s in %.1fs" % (variant, time.time() - t0))
        return dst
    finally:
        fcntl.flock(lockf, fcntl.LOCK_UN)
        lockf.close()


class Merged:
    def __init__(self):
        self.counters = {}
        self.maxima = {}
        self.samples = []
        self.notes = []
        self.violations = []  # parsed V objects
        self.known = []
        self.crashes = []  # dicts
        self.replay_held = []
        self.digests = {}
        self.dumps = []
        self.incomplete = 0
        self.wall = 0.0

    def absorb_stats(self, s):
        for k, v in s.get("counters", {}).items():
            self.counters[k] = self.counters.get(k, 0) + v
        for k, v in s.get("maxima", {}).items():
            self.maxima[k] = max(self.maxima.get(k, 0), v)
        self.samples += s.get("samples", [])
        self.notes += s.get("notes", [])

    def merge(self, other):
        for k, v in other.counters.items():
            self.counters[k] = self.counters.get(k, 0) + v
        for k, v in other.maxima.items():
            self.maxima[k] = max(self.maxima.get(k, 0), v)
        self.samples += other.samples
        self.notes += other.notes
        self.violations += other.violations
        self.known += other.known
        self.crashes += other.crashes
        self.incomplete += other.incomplete
        self.replay_held += other.replay_held
        self.digests.update(other.digests)
        self.dumps += other.dumps

    def c(self, k):
        return self.counters.get(k, 0)


def _limits(mem_gb):
    def f():
        if mem_gb:
            b = int(mem_gb * (1 << 30))
            resource.setrlimit(resource.RLIMIT_AS, (b, b))
        resource.setrlimit(resource.RLIMIT_CORE, (0, 0))
        os.setsid()

    return f


def run_one(binary, args, timeout, mem_gb, env=None, wrapper=None):
    """Run one runner process; returns (lines, returncode, stderr_tail, timed_out)."""
    cmd = (wrapper or []) + ([binary] if binary else []) + args
    e = dict(os.environ)
    if env:
        e.update(env)
    p = subprocess.Popen(cmd, stdout=subprocess.PIPE, stderr=subprocess.PIPE, text=True, errors="replace", preexec_fn=_limits(mem_gb), env=e)
    lines = []
    err = []

    def rd_err():
        for l in p.stderr:
            err.append(l)
            if len(err) > 400:
                del err[:200]

    t = threading.Thread(target=rd_err, daemon=True)
    t.start()
    timed_out = [False]

    def kill():
        timed_out[0] = True
        try:
            os.killpg(p.pid, signal.SIGKILL)
        except Exception:
            pass

    timer = threading.Timer(timeout, kill)
    timer.start()
    try:
        for l in p.stdout:
            lines.append(l.rstrip("\n"))
    finally:
        p.wait()
        timer.cancel()
        t.join(timeout=2)
    return lines, p.returncode, "".join(err[-60:]), timed_out[0]


def run_shard(binary, check, tier, seed, shard, nshards, scale, opts, timeout, mem_gb, env, wrapper, crash_property, out, max_restarts=6):
    resume = None
    restarts = 0
    t_end = time.time() + timeout
    while True:
        args = [check, "--tier", tier, "--seed", str(seed), "--shard", "%d/%d" % (shard, nshards), "--scale", str(scale)]
        for k, v in (opts or {}).items():
            args += ["--opt", "%s=%s" % (k, v)]
        if resume is not None:
            args += ["--resume-after", str(resume)]
        remaining = max(5.0, t_end - time.time())
        lines, rc, err, timed_out = run_one(binary, args, remaining, mem_gb, env, wrapper)
        last_b = None
        got_stats = False
        for l in lines:
            if l.startswith("B "):
                last_b = l[2:]
            elif l.startswith("V "):
                try:
                    out.violations.append(json.loads(l[2:]))
                except Exception as ex:
                    out.notes.append("unparsable V line: %s (%s)" % (l[:200], ex))
            elif l.startswith("K "):
                try:
                    out.known.append(json.loads(l[2:]))
                except Exception:
                    pass
            elif l.startswith("S "):
                try:
                    out.absorb_stats(json.loads(l[2:]))
                    got_stats = True
                except Exception as ex:
                    out.notes.append("unparsable S line (%s)" % ex)
            elif l.startswith("REPLAY-HELD"):
                out.replay_held.append(l)
            elif l.startswith("D "):
                parts = l.split()
                if len(parts) == 4:
                    out.digests[int(parts[1])] = (parts[2], int(parts[3]))
            elif l.startswith("X "):
                try:
                    out.dumps.append(json.loads(l[2:]))
                except Exception:
                    pass
        if rc == 0 and got_stats:
            return
        if timed_out:
            out.incomplete += 1
            out.notes.append("shard %d stopped by the wall-clock watchdog (inconclusive, not a violation); last program: %s" % (shard, (last_b or "")[:300]))
            return
        if rc == 2:
            raise HarnessError("runner usage/harness error (rc=2): %s" % err[-2000:])
        if rc == 3:
            raise HarnessError("runner worker thread panicked (harness bug): %s" % err[-2000:])
        # abnormal death: attribute to the last announced program
        idx = None
        desc = None
        if last_b:
            try:
                i, d = last_b.split("\t", 1)
                idx = int(i)
                desc = json.loads(d)
            except Exception:
                pass
        sig = -rc if rc is not None and rc < 0 else None
        out.crashes.append(dict(shard=shard, returncode=rc, signal=sig, program_index=idx, program=desc, stderr_tail=err[-3000:], property=crash_property))
        restarts += 1
        if idx is None or restarts > max_restarts:
            out.incomplete += 1
            return
        resume = idx


def run_shards(variant, check, tier, seed, scale=1.0, opts=None, nshards=NCPU, timeout=3600, mem_gb=6, env=None, wrapper=None, crash_property="C06", binary=None, parallel=None):
    if binary is False:
        binary = None
    else:
        binary = binary or os.path.join(BIN, "vrun-" + variant)
    out = Merged()
    t0 = time.time()
    parts = [Merged() for _ in range(nshards)]
    errors = []
    sem = threading.Semaphore(parallel or NCPU)

    def work(i):
        with sem:
            try:
                run_shard(binary, check, tier, seed, i, nshards, scale, opts, timeout, mem_gb, env, wrapper, crash_property, parts[i])
            except Exception as ex:  # noqa
                errors.append(ex)

    ths = [threading.Thread(target=work, args=(i,)) for i in range(nshards)]
    for t in ths:
        t.start()
    for t in ths:
        t.join()
    if errors:
        raise errors[0]
    for p in parts:
        out.merge(p)
    out.wall = time.time() - t0
    return out


# ------------------------------------------------------------------------------------------
# known findings


def load_known():
    try:
        with open(KNOWN) as f:
            return json.load(f)
    except FileNotFoundError:
        return {"findings": [], "fixed": []}


def vkey(v):
    """A stable identity for a violation: property + (shrunk) pattern + flags + haystack + start."""
    case = v.get("shrunk") or v.get("case") or {}
    if not case.get("pattern_cps"):
        return dict(property=v.get("property"), case=case, what=v.get("what") if not case else None)
    return dict(
        property=v.get("property"),
        pattern_cps=case.get("pattern_cps"),
        flags=case.get("flags"),
        haystack_hex=case.get("haystack_hex"),
        start=case.get("start"),
    )


def matches_finding(f, v):
    sig = f.get("signature", {})
    for case in [v.get("shrunk"), v.get("case")]:
        if not case:
            continue
        ok = True
        for k, want in sig.items():
            if k == "property":
                continue
            if case.get(k) != want and v.get(k) != want:
                ok = False
                break
        if ok:
            return True
    return False


# ------------------------------------------------------------------------------------------
# output


def write_replay(pid, v):
    os.makedirs(REPLAYS, exist_ok=True)
    blob = json.dumps(v, sort_keys=True, ensure_ascii=False)
    h = hashlib.sha1(blob.encode("utf-8", "replace")).hexdigest()[:12]
    path = os.path.join(REPLAYS, "%s-%s.json" % (pid, h))
    with open(path, "w") as f:
        json.dump(v, f, indent=1, ensure_ascii=False)
    return path


def write_evidence(pid, tier, seed, coverage, assumptions, wall, violations, level="exploration"):
    os.makedirs(EVIDENCE, exist_ok=True)
    ev = dict(property_id=pid, tier=tier, seed=int(seed), level=level, coverage=coverage, assumptions=assumptions, wall_s=round(wall, 2), violations=int(violations))
    path = os.path.join(EVIDENCE, pid + ".json")
    tmp = path + ".tmp"
    with open(tmp, "w") as f:
        json.dump(ev, f, indent=1, ensure_ascii=False, sort_keys=False)
    os.replace(tmp, path)
    return path


def group_counters(counters, prefix):
    return {k[len(prefix):]: v for k, v in sorted(counters.items()) if k.startswith(prefix)}


def finish(pid, tier, seed, merged, rule, assumptions, extra_cov=None, required=None, exhaustive=None, t0=None):
    """Decide the verdict, print VIOLATION / KNOWN-FINDING lines, write evidence, return exit code."""
    known = load_known()
    findings = [f for f in known.get("findings", []) if f.get("property") == pid]
    new_violations = []
    known_hits = {}
    seen_keys = set()
    # crashes are violations of the crash property, reported under this check's id
    for c in merged.crashes:
        v = dict(property=pid, detail_property=c.get("property"), what="runner process died (signal %s, rc %s) while running this program" % (c.get("signal"), c.get("returncode")), case=c.get("program") or {}, observed=c.get("stderr_tail", "")[-1500:], expected="the call returns")
        merged.violations.append(v)
    for v in merged.violations:
        detail = v.get("property")
        hit = None
        for f in findings:
            if matches_finding(f, v):
                hit = f
                break
        if hit is not None:
            known_hits.setdefault(hit.get("id"), (hit, v))
            continue
        key = json.dumps(vkey(v), sort_keys=True)
        if key in seen_keys:
            continue
        seen_keys.add(key)
        v = dict(v)
        v["detail_property"] = detail
        v["property"] = pid
        new_violations.append(v)
    for kv in merged.known:
        fid = kv.get("id")
        for f in findings:
            if f.get("id") == fid:
                known_hits.setdefault(fid, (f, kv))
    for fid, (f, v) in sorted(known_hits.items()):
        print("KNOWN-FINDING: property=%s %s [%s]" % (pid, f.get("what_fails", ""), fid))
    rc = 0
    for v in new_violations[:40]:
        path = write_replay(pid, v)
        sh = v.get("shrunk") or v.get("case") or {}
        log("violation (%s): %s | pattern=%r flags=%r haystack=%r start=%r | observed: %s | expected: %s" % (v.get("detail_property"), sh.get("what", v.get("what")), sh.get("pattern"), sh.get("flags"), sh.get("haystack") if sh.get("u16") is None else "u16:" + " ".join("%04X" % x for x in sh.get("u16")), sh.get("start"), str(sh.get("observed", v.get("observed")))[:300], str(sh.get("expected", v.get("expected")))[:300]))
        print("VIOLATION property=%s replay=%s" % (pid, path))
        rc = 1
    c = merged.counters
    cov = dict(
        evaluations=int(c.get("evaluations", 0)),
        distinct_nontrivial=int(c.get("distinct_nontrivial", 0)),
        rule=rule,
        samples=merged.samples[:12],
        programs=int(c.get("programs", 0)),
        inconclusive=group_counters(c, "inconclusive"),
        skipped=group_counters(c, "skipped."),
        crashes=len(merged.crashes),
        incomplete_shards=merged.incomplete,
        known_findings_replayed=sorted(known_hits.keys()),
        notes=merged.notes[:20],
    )
    if exhaustive is not None:
        cov["exhaustive"] = bool(exhaustive)
    prof = group_counters(c, "hook.")
    if prof:
        cov["opcode_profile"] = prof
    if merged.maxima:
        cov["maxima"] = merged.maxima
    if extra_cov:
        cov.update(extra_cov)
    wall = (time.time() - t0) if t0 else merged.wall
    write_evidence(pid, tier, seed, cov, assumptions, wall, len(new_violations))
    if rc == 0:
        problems = []
        if cov["evaluations"] < 1 or cov["distinct_nontrivial"] < 2:
            problems.append("the monitor observed nothing non-trivial (evaluations=%d distinct_nontrivial=%d)" % (cov["evaluations"], cov["distinct_nontrivial"]))
        for k in required or []:
            if c.get(k, 0) <= 0:
                problems.append("required observation %r was never made" % k)
        if problems:
            for p in problems:
                log("INCONCLUSIVE RUN: " + p)
            return 2
    log("%s %s seed=%s: evaluations=%d distinct_nontrivial=%d programs=%d violations=%d known=%d inconclusive=%s wall=%.1fs" % (pid, tier, seed, cov["evaluations"], cov["distinct_nontrivial"], cov["programs"], len(new_violations), len(known_hits), cov["inconclusive"].get("", 0), wall))
    return rc


# ------------------------------------------------------------------------------------------
# check definitions

ASSUME_COMMON = [
    "held on the executions listed here only; nothing is proved",
    "runner built from /repo's working tree with the 'verif' hook feature; crate debug assertions enabled in the dbg variant",
]


def simple_check(pid, vcheck, rule, assumptions, variant="dbg", required=None, extra=None, crash_property="C06", mem_gb=6, extra_stages=()):
    """extra_stages: further (variant, vcheck) runs whose observations are merged into the same verdict
    (e.g. the UTF-16 entry points, which exist only in the utf16 build)."""

    def run(tier, seed, replay=None):
        t0 = time.time()
        build(variant)
        for v2, _ in extra_stages:
            build(v2)
        if replay:
            try:
                chk = json.load(open(replay)).get("case", {}).get("check")
            except Exception:
                chk = None
            for v2, c2 in extra_stages:
                if chk == c2:
                    return do_replay(pid, v2, c2, replay)
            return do_replay(pid, variant, vcheck, replay)
        m = run_shards(variant, vcheck, tier, seed, crash_property=crash_property, timeout=7200 if tier == "thorough" else 1500, mem_gb=mem_gb)
        for v2, c2 in extra_stages:
            m2 = run_shards(v2, c2, tier, seed, crash_property=crash_property, timeout=7200 if tier == "thorough" else 1500, mem_gb=mem_gb)
            for k in list(m2.counters.keys()):
                m2.counters[c2 + "." + k] = m2.counters[k]
            m.merge(m2)
        extra_cov = extra(m) if extra else None
        return finish(pid, tier, seed, m, rule, ASSUME_COMMON + assumptions, extra_cov=extra_cov, required=required, t0=t0)

    return run


def do_replay(pid, variant, vcheck, path):
    binary = os.path.join(BIN, "vrun-" + variant)
    lines, rc, err, to = run_one(binary, [vcheck, "--replay", path], 600, 6)
    viol = [l for l in lines if l.startswith("V ")]
    for l in lines:
        if l.startswith("REPLAY-HELD"):
            print(l)
    if rc not in (0,):
        print("replay: runner died rc=%s\n%s" % (rc, err[-2000:]))
        print("VIOLATION property=%s replay=%s" % (pid, path))
        return 1
    if viol:
        v = json.loads(viol[0][2:])
        print("replay: still violated: %s\n  observed: %s\n  expected: %s" % (v.get("what"), v.get("observed"), v.get("expected")))
        print("VIOLATION property=%s replay=%s" % (pid, path))
        return 1
    print("replay: held")
    return 0


def c04_extra(m):
    return dict(predicate_kinds=group_counters(m.counters, "predicate."), predicate_kinds_with_match=group_counters(m.counters, "predicate_matched."), predicate_kinds_without_match=group_counters(m.counters, "predicate_unmatched."))


def c03_extra(m):
    return dict(rewrites_fired=group_counters(m.counters, "rewrites."))


def calibration():
    """Result of bin/calibrate (run by setup): esref against the repository's own behavioural tests."""
    try:
        r = json.load(open(os.path.join(BUILD, "calib", "result.json")))
        return dict(source="/repo/tests/{tests,pcre_tests,unicodesets,syntax_error_tests}.rs compiled against a facade backed by esref", test_functions_passed=r.get("passed"), skipped_no_reference_data=r.get("skipped_unsupported"), failed=r.get("failed"), excluded=r.get("excluded"))
    except Exception:
        return dict(status="not available in this build directory (run bin/calibrate)")


def c01_extra(m):
    return dict(esref_calibration=calibration(), esref_events=group_counters(m.counters, "esref."), pattern_features=group_counters(m.counters, "feat."))


def c13_extra(m):
    return dict(programs_mentioning_nonascii=m.c("programs_mentioning_nonascii"), pairs_with_nonascii_pattern=m.c("pairs_with_nonascii_pattern"))


MIRI_FEATURES = "hooks,re-std,re-pikevm"


def miri_wrapper(features=MIRI_FEATURES):
    # one target directory per feature set, so that alternating stages do not rebuild each other
    tdir = "target-miri" if features == MIRI_FEATURES else "target-miri-" + hashlib.sha1(features.encode()).hexdigest()[:8]
    return ["cargo", "+nightly", "miri", "run", "--manifest-path", os.path.join(HARNESS, "Cargo.toml"), "--target-dir", os.path.join(BUILD, tdir), "--no-default-features", "--features", features, "--bin", "vrun", "--"]


def miri_prepare(features=MIRI_FEATURES):
    """Build the runner for Miri once (serially) so that the parallel runs only take the lock briefly."""
    env = dict(os.environ)
    env["CARGO_NET_OFFLINE"] = "true"
    env.pop("RUSTFLAGS", None)
    t0 = time.time()
    p = subprocess.run(miri_wrapper(features) + ["nop"], cwd=HARNESS, env=env, stdout=subprocess.PIPE, stderr=subprocess.STDOUT, text=True)
    if p.returncode != 0:
        raise HarnessError("Miri build/run failed:\n%s" % "\n".join(p.stdout.splitlines()[-40:]))
    log("miri runner ready in %.1fs" % (time.time() - t0))


def run_miri(check, tier, seed, opts, nprocs=NCPU, timeout=3000, miriflags="", crash_property="C06", features=MIRI_FEATURES):
    env = {"CARGO_NET_OFFLINE": "true", "MIRIFLAGS": miriflags}
    return run_shards("miri", check, tier, seed, opts=opts, nshards=nprocs, timeout=timeout, mem_gb=None, env=env, wrapper=miri_wrapper(features), crash_property=crash_property, binary=False)


def tool_summary(name, m):
    return dict(tool=name, cases=m.c("cases_run") or m.c("evaluations"), evaluations=m.c("evaluations"), programs=m.c("programs"), reports=len(m.crashes) + len(m.violations), wall_s=round(m.wall, 1), opcode_kinds_executed=len([k for k in m.counters if k.startswith("hook.bt.") or k.startswith("hook.pike.")]), backward_opcode_kinds=len([k for k in m.counters if k.startswith("hook.bt.bwd.")]), incomplete_shards=m.incomplete)


def unsafe_entry_points(c):
    """Which unchecked code paths the dynamic opcode profile proves were executed."""
    has = lambda *ks: any(c.get(k, 0) > 0 for k in ks)
    return {
        "iat/mat get_unchecked (instruction fetch, group and loop tables)": has("hook.site.bt_insn"),
        "Vec::set_len in pop_backtrack": has("hook.pop.SetPosition", "hook.pop.SetCaptureGroup"),
        "RefPosition pointer arithmetic, forward decode (next_right)": has("hook.bt.fwd.Bracket", "hook.bt.fwd.CharSet", "hook.bt.fwd.MatchAny", "hook.bt.fwd.MatchAnyExceptLineTerminator", "hook.bt.fwd.Char"),
        "backward UTF-8 decode (next_left) in lookbehind": has("hook.bt.bwd.Bracket", "hook.bt.bwd.CharSet", "hook.bt.bwd.MatchAny", "hook.bt.bwd.MatchAnyExceptLineTerminator", "hook.bt.bwd.Char"),
        "from_raw_parts in subrange_eq (backreference)": has("hook.bt.fwd.BackRef", "hook.bt.bwd.BackRef"),
        "case-insensitive backreference (subinput)": has("hook.bt.fwd.BackRefICase", "hook.bt.bwd.BackRefICase"),
        "match_bytes literal compare, forward": has("hook.bt.fwd.ByteSeq1to4", "hook.bt.fwd.ByteSeq5to16"),
        "match_bytes literal compare, backward": has("hook.bt.bwd.ByteSeq1to4", "hook.bt.bwd.ByteSeq5to16"),
        "byte-set instructions on multi-byte text": has("hook.bt.fwd.ByteSet2", "hook.bt.fwd.ByteSet3", "hook.bt.fwd.ByteSet4", "hook.bt.fwd.AsciiBracket"),
        "1-char loop backtracking via next_left_pos/next_right_pos": has("hook.pop.GreedyLoop1Char", "hook.pop.NonGreedyLoop1Char"),
        "unreachable_unchecked-guarded dispatch (LoopAgain/EnterNonGreedyLoop)": has("hook.bt.fwd.LoopAgain", "hook.pop.EnterNonGreedyLoop"),
        "word boundary peek at both ends": has("hook.bt.fwd.WordBoundary", "hook.bt.fwd.WordBoundaryUnicodeICase"),
    }


def check_c06(tier, seed, replay=None):
    t0 = time.time()
    pid = "C06"
    build("dbg")
    if replay:
        return do_replay(pid, "dbg", "c06", replay)
    merged = run_shards("dbg", "c06", tier, seed, timeout=3600)
    tools = [tool_summary("native, crate debug assertions on (dbg)", merged)]
    # AddressSanitizer
    try:
        build("asan")
        asan_env = {"ASAN_OPTIONS": "halt_on_error=1:abort_on_error=1:detect_leaks=1:allocator_may_return_null=1"}
        a = run_shards("asan", "c06", tier, seed, scale=(0.25 if tier == "quick" else 1.0), mem_gb=None, env=asan_env, timeout=3600)
        tools.append(tool_summary("AddressSanitizer (nightly, -Zsanitizer=address)", a))
        merged.merge(a)
    except HarnessError as e:
        merged.notes.append("ASan stage unavailable: %s" % str(e)[:300])
        tools.append(dict(tool="AddressSanitizer", unavailable=str(e)[:300]))
    # Miri
    try:
        miri_prepare()
        per = 100 if tier == "quick" else 1200
        mi = run_miri("c06", tier, seed, {"max_cases": per, "budget_s": 120 if tier == "quick" else 3000}, timeout=1500 if tier == "quick" else 14000)
        tools.append(tool_summary("Miri (UB, out-of-bounds pointer arithmetic, provenance, uninitialised reads)", mi))
        merged.merge(mi)
    except HarnessError as e:
        merged.notes.append("Miri stage unavailable: %s" % str(e)[:300])
        tools.append(dict(tool="Miri", unavailable=str(e)[:300]))
    # The UTF-16 / UCS-2 entry points (utf16 build): any u16 slice, any start offset, also between
    # the halves of a surrogate pair -- natively with debug assertions, under ASan, under Miri.
    try:
        build("utf16")
        u = run_shards("utf16", "c06u16", tier, seed, timeout=3600)
        for k in list(u.counters.keys()):
            u.counters["c06u16." + k] = u.counters[k]
        tools.append(tool_summary("utf16 build natively, crate debug assertions on: find_from_utf16 / find_from_ucs2 on arbitrary u16 text", u))
        merged.merge(u)
        build("asan16")
        asan_env = {"ASAN_OPTIONS": "halt_on_error=1:abort_on_error=1:detect_leaks=1:allocator_may_return_null=1"}
        a16 = run_shards("asan16", "c06u16", tier, seed, scale=(0.25 if tier == "quick" else 1.0), mem_gb=None, env=asan_env, timeout=3600)
        tools.append(tool_summary("AddressSanitizer, utf16 build (release profile: the crate's unreachable_unchecked paths are live)", a16))
        merged.merge(a16)
        f16 = MIRI_FEATURES + ",utf16"
        miri_prepare(f16)
        m16 = run_miri("c06u16", tier, seed, {"max_cases": 40 if tier == "quick" else 600, "budget_s": 60 if tier == "quick" else 2400}, timeout=1500 if tier == "quick" else 14000, features=f16)
        tools.append(tool_summary("Miri, utf16 build", m16))
        merged.merge(m16)
    except HarnessError as e:
        merged.notes.append("utf16 stages unavailable: %s" % str(e)[:300])
        tools.append(dict(tool="utf16 stages", unavailable=str(e)[:300]))
    # valgrind memcheck on the plain release build (thorough only)
    if tier == "thorough":
        try:
            build("rel")
            vg = run_shards("rel", "c06", tier, seed, opts={"max_cases": 4000}, mem_gb=None, wrapper=["valgrind", "-q", "--error-exitcode=97", "--leak-check=no"], timeout=7200)
            tools.append(tool_summary("valgrind memcheck on the release build", vg))
            merged.merge(vg)
        except HarnessError as e:
            merged.notes.append("valgrind stage unavailable: %s" % str(e)[:300])
    rule = ("hostile workload for the default (unchecked, pointer-position) build: fixed corpus + small-scope enumeration + seeded structured random patterns (every 5th with no_opt), each on haystacks that put one character of every UTF-8 length (U+0000, 7F, 80, 7FF, 800, FFFF, 10000, 10FFFF, 2028) at both ends and adjacent, the empty haystack and random mixes; every char-boundary start plus len+1 and usize::MAX;"
            " entry points: find_from, PikeVM, find_from_ascii and PikeVM-ASCII (ASCII haystacks only), replace/replace_all. Monitors: range monitor on every match and capture (then the haystack is sliced with them), caught panics incl. the crate's debug assertions, and the sanitizers listed under coverage.tools (a report kills the runner; the supervisor attributes it to the last announced program)."
            " A case is (program, haystack, start, entry point); non-trivial iff it matched in a haystack with multi-byte characters. Every other check also passes all its matches through the same range monitor.")
    extra = dict(tools=tools, unsafe_entry_points_reached=unsafe_entry_points(merged.counters), ranges_checked=merged.c("ranges_checked"))
    return finish(pid, tier, seed, merged, rule, ASSUME_COMMON + ["a clean sanitizer run is not memory safety: red-zone tools miss in-bounds-of-another-object accesses, Miri sees only what it executes", "ASCII entry points are driven with ASCII text only (their documented domain)", "UTF-16/UCS-2 entry points (counters c06u16.*): fixed corpus + seeded structured patterns x u16 texts made of the pattern's characters, their surrogate halves and unrelated surrogates x every start offset incl. inside a pair; no panic, ranges inside the slice and increasing, termination when the reference search is cheap"], extra_cov=extra, required=["ranges_checked", "hook.bt.bwd.ByteSeq1to4", "hook.pop.GreedyLoop1Char", "hook.pop.NonGreedyLoop1Char", "hook.bt.bwd.BackRefICase", "hook.bt.fwd.BackRef", "c06u16.robust_cases_with_start_inside_a_pair"], t0=t0)


def check_c19(tier, seed, replay=None):
    t0 = time.time()
    pid = "C19"
    try:
        build("dbg")
        # the assertion is compiled against the other feature sets of the crate as well
        # (alloc-only, utf16, index-positions + prohibit-unsafe)
        for v in ("nostd", "utf16", "idxsafe"):
            build(v)
    except HarnessError as e:
        # The harness asserts Regex/Match/Error: Send + Sync at compile time.
        if "Send" in str(e) or "Sync" in str(e) or "cannot be shared between threads" in str(e) or "cannot be sent between threads" in str(e):
            v = dict(property=pid, what="Regex, Match or Error is no longer Send + Sync (static assertion in the harness fails to compile)", case=dict(static_assertion="assert_send_sync"), observed=str(e)[-1500:], expected="auto traits hold")
            path = write_replay(pid, v)
            print("VIOLATION property=%s replay=%s" % (pid, path))
            write_evidence(pid, tier, seed, dict(evaluations=1, distinct_nontrivial=0, rule="static auto-trait assertion", samples=[v["what"]]), ASSUME_COMMON, time.time() - t0, 1)
            return 1
        raise
    if replay:
        return do_replay(pid, "dbg", "c19", replay)
    merged = run_shards("dbg", "c19", tier, seed, timeout=3600, nshards=16, crash_property="C19")
    tools = [tool_summary("native threads (2/4/16 per group) with hook-injected yields", merged)]
    try:
        miri_prepare()
        nseeds = 4 if tier == "quick" else 16
        mi = run_miri("c19", tier, seed, {"small": 1, "queries": 6}, nprocs=16, timeout=2400 if tier == "quick" else 14000, miriflags="-Zmiri-many-seeds=0..%d" % nseeds, crash_property="C19")
        ts = tool_summary("Miri data-race detector + weak-memory emulation, %d scheduler seeds per pattern" % nseeds, mi)
        ts["miri_seeds"] = nseeds
        tools.append(ts)
        # -Zmiri-many-seeds runs the program once per seed: the S lines are repeated, keep the counters as a sum
        merged.merge(mi)
    except HarnessError as e:
        merged.notes.append("Miri stage unavailable: %s" % str(e)[:300])
        tools.append(dict(tool="Miri", unavailable=str(e)[:300]))
    if tier == "thorough":
        try:
            build("tsan")
            tsan_env = {"TSAN_OPTIONS": "halt_on_error=1:exitcode=66"}
            reps = 0
            for r in range(6):
                t = run_shards("tsan", "c19", tier, seed + r, mem_gb=None, env=tsan_env, timeout=3600, nshards=16, crash_property="C19", opts={"queries": 400})
                merged.merge(t)
                reps += 1
            tools.append(dict(tool="ThreadSanitizer (-Zsanitizer=thread -Zbuild-std)", repetitions=reps, reports=len([c for c in merged.crashes if c.get("returncode") == 66])))
        except HarnessError as e:
            merged.notes.append("TSan stage unavailable: %s" % str(e)[:300])
            tools.append(dict(tool="ThreadSanitizer", unavailable=str(e)[:300]))
    rule = ("static: the harness contains assert_send_sync::<Regex/Match/Error/Flags>() (a failing build is reported as a violation). Dynamic: 24 patterns (16 under Miri; incl. case-insensitive backreferences over characters whose code points agree in their low 8/16 bits, and patterns near the structural limits: 40-deep lookaheads / lookbehinds, 300 groups, 200 loops) x a multiset of queries (haystack, start, entry point, early iterator drop); the sequential specification is each query alone on a freshly compiled Regex; then (a) all queries in shuffled order on one Regex in one thread, (b) groups of 2, 4 and 16 threads sharing one Arc<Regex> plus per-thread clones, running shuffled overlapping subsets, including two live iterators advanced alternately, with the hook calling yield_now() every 1/3/7/50 engine steps; every result digest must equal the sequential one; (c) finally each query alone on a fresh Regex again (process-wide state); (d) find / find_iter / replace / replace_all / find_ascii on one text buffer rewritten in place, and clone_from into differently compiled Regexes; (e) every runner process begins with a cold-start battery: 8 threads behind a barrier make the process's very first searches (12 queries touching case folding, property tables, class strings), compared with the same queries made sequentially afterwards. The static assertion is compiled against the std, alloc-only, utf16 and index-positions+prohibit-unsafe builds."
            " The same workload (small) runs under Miri with several scheduler seeds and, in the thorough tier, under ThreadSanitizer. A case is one (pattern, query, thread group, thread); all are non-trivial.")
    extra = dict(tools=tools, concurrent_queries=merged.c("concurrent_queries"), thread_groups=group_counters(merged.counters, "thread_groups."), thread_runs_with_injected_yields=merged.c("thread_runs_with_injected_yields"), static_send_sync_assertions=True)
    return finish(pid, tier, seed, merged, rule, ASSUME_COMMON + ["holds by construction today (no interior mutability in CompiledRegex); this is a tripwire for a cache or scratch buffer added to the shared program"], extra_cov=extra, required=["concurrent_queries", "thread_groups.16", "static_send_sync_assertions", "fresh_rechecks", "cold_start_queries", "reused_buffer_queries", "clone_from_queries"], t0=t0)


C15_VARIANTS = ["dbg", "idx", "safe", "idxsafe", "utf16", "nostd"]


def check_c15(tier, seed, replay=None):
    t0 = time.time()
    pid = "C15"
    for v in C15_VARIANTS:
        build(v)
    os.makedirs(os.path.join(BUILD, "tmp"), exist_ok=True)
    timeout = 7200 if tier == "thorough" else 1500
    if replay:
        r = json.load(open(replay))
        idx = (r.get("case") or {}).get("program_index")
        variants = (r.get("case") or {}).get("variants") or ["dbg", "idx"]
        rseed = (r.get("case") or {}).get("seed", seed)
        rtier = (r.get("case") or {}).get("tier", tier)
        obs = {}
        for v in variants:
            m = run_shards(v, "c15", rtier, rseed, opts={"dump_idx": idx}, nshards=1, timeout=timeout)
            obs[v] = m.dumps[0]["observations"] if m.dumps else None
        if obs[variants[0]] == obs[variants[1]]:
            print("replay: held")
            return 0
        print("replay: still differs between %s and %s" % (variants[0], variants[1]))
        print("VIOLATION property=C15 replay=%s" % replay)
        return 1
    base = run_shards("dbg", "c15", tier, seed, timeout=timeout)
    expensive = sorted(i for i, (h, c) in base.digests.items() if c >= 1000000)
    skipf = os.path.join(BUILD, "tmp", "c15-skip-%d-%s.txt" % (seed, tier))
    with open(skipf, "w") as f:
        f.write(" ".join(str(i) for i in expensive))
    merged = base
    compared = 0
    mismatches = []
    per_variant = {}
    for v in C15_VARIANTS[1:]:
        m = run_shards(v, "c15", tier, seed, opts={"skip_file": skipf}, timeout=timeout)
        merged.crashes += m.crashes
        merged.incomplete += m.incomplete
        merged.violations += m.violations
        n = 0
        for i, (h, c) in base.digests.items():
            if c >= 1000000:
                continue
            o = m.digests.get(i)
            if o is None:
                if not m.crashes and not m.incomplete:
                    mismatches.append((v, i, h, None))
                continue
            if o[1] >= 1000000:
                # the variant itself ran out of its step budget somewhere in this program: inconclusive
                merged.counters["inconclusive"] = merged.counters.get("inconclusive", 0) + 1
                merged.counters["inconclusive.variant_fuel"] = merged.counters.get("inconclusive.variant_fuel", 0) + 1
                continue
            n += 1
            if o[0] != h:
                mismatches.append((v, i, h, o[0]))
        per_variant[v] = n
        compared += n
    # details for the first few mismatches
    for v, i, h, o in mismatches[:5]:
        a = run_shards("dbg", "c15", tier, seed, opts={"dump_idx": i}, nshards=1, timeout=600)
        b = run_shards(v, "c15", tier, seed, opts={"dump_idx": i}, nshards=1, timeout=600)
        oa = a.dumps[0] if a.dumps else {}
        ob = b.dumps[0] if b.dumps else {}
        la, lb = oa.get("observations", []), ob.get("observations", [])
        diff = [(x, y) for x, y in zip(la, lb) if x != y][:3]
        prog = oa.get("program") or ob.get("program") or {}
        case = dict(prog)
        case.update(program_index=i, variants=["dbg", v], seed=seed, tier=tier)
        merged.violations.append(dict(property="C15", what="results differ between the default build and the %s feature variant" % v, case=case, observed="%s: %s" % (v, [d[1] for d in diff] or o), expected="default: %s" % ([d[0] for d in diff] or h)))
    for v, i, h, o in mismatches[5:40]:
        merged.violations.append(dict(property="C15", what="results differ between the default build and the %s feature variant" % v, case=dict(program_index=i, variants=["dbg", v], seed=seed, tier=tier), observed=str(o), expected=str(h)))
    merged.counters["digests_compared"] = compared
    merged.counters["programs_excluded_as_expensive"] = len(expensive)
    rule = ("one deterministic stream of programs (fixed corpus, small-scope enumeration under 4 flag sets, seeded structured random patterns incl. property escapes and fold-special alphabets) replayed by runner binaries built with each feature set;"
            " per program a digest over: compile Ok/Err, full match sequences of the backtracking and PikeVM executors and the ASCII entry point on every relevant-alphabet haystack from every start, replace and replace_all."
            " A case is (program, haystack, start, entry point) in the default build; non-trivial iff it matched. Digests of every other variant must equal the default build's.")
    return finish(pid, tier, seed, merged, rule, ASSUME_COMMON + ["variants: default, index-positions, prohibit-unsafe, both, utf16, no-std (alloc + backend-pikevm)", "programs whose search exhausts the step budget in the default build are excluded in all variants (the no-std build has no fuel hook)"], extra_cov=dict(variants=C15_VARIANTS, digests_compared=compared, digests_compared_per_variant=per_variant, programs_excluded_as_expensive=len(expensive), mismatches=len(mismatches)), required=["digests_compared"], t0=t0)


PRED_KINDS = ["Arbitrary", "ByteSet1", "ByteSet2", "ByteSet3", "ByteSeq", "ByteBracket", "StartAnchored"]

RULE_PROGRAMS = (
    "programs = fixed corpus + every pattern of the small-scope enumeration (ASTs over {a,b,.,[ab],\\1,(?:),^,$,\\b} x cat/alt/group/10 quantifiers/4 lookarounds up to the node bound in maxima.enum_nodes, under 4-5 flag sets)"
    " + seeded structured random patterns over all 24 flag sets; per program every haystack up to a length bound over its relevant alphabet (mentioned characters, case partners, an unrelated character, a newline) plus longer random and pattern-derived haystacks, from every char-boundary start offset."
    " A case is (program, haystack, start); distinct by hash; "
)

CHECKS = {
    "C01": simple_check(
        "C01",
        "c01",
        RULE_PROGRAMS + "non-trivial iff the pattern has a quantifier/group/alternation/lookaround/backreference and the reference model found a match or took more than 8 steps.",
        ["the oracle is esref, an independent implementation of ECMA-262 22.2 written for this purpose (its reading of the specification is the trusted base)", "cases where esref exceeds its own step/depth budget or lacks Unicode data are inconclusive and excluded"],
        extra=c01_extra,
    ),
    "C02": simple_check(
        "C02",
        "c02",
        RULE_PROGRAMS + "non-trivial iff the backtracking executor found at least one match.",
        ["pure differential monitor between the two executors inside one process; both sides also pass the C06 range monitor"],
        required=["ascii_pairs", "hook.site.pike_step", "hook.site.bt_pop"],
    ),
    "C03": simple_check(
        "C03",
        "c03",
        RULE_PROGRAMS + "non-trivial iff the optimized regex found at least one match.",
        ["differential monitor between Flags::no_opt and the default; which rewrites fired is observed by comparing the two emitted programs through the hook"],
        required=["rewrites.byteseq_formed", "rewrites.byteseq_long_formed", "rewrites.loop1char_formed", "rewrites.unrolled_or_grew", "rewrites.literal_chunked", "rewrites.early_fail", "rewrites.literal_in_program_with_lookbehind", "rewrites.bracket_simplified"],
        extra=c03_extra,
    ),
    "C04": simple_check(
        "C04",
        "c04",
        RULE_PROGRAMS + "non-trivial iff a non-Arbitrary start predicate was chosen and the regex with predicate Arbitrary found at least one match.",
        ["the comparison program is the same bytecode with StartPredicate::Arbitrary (hook with_arbitrary_start_pred)"],
        required=["predicate_matched." + k for k in PRED_KINDS] + ["predicate_unmatched." + k for k in PRED_KINDS],
        extra=c04_extra,
    ),
    "C05": simple_check(
        "C05",
        "c05",
        "exhaustive scope: every nesting (depth in maxima.nesting_depth) of 14 quantifier forms around 14 bodies that can match the empty string (with and without capture groups, forward, inside a lookbehind, followed by a literal or a backreference) x every haystack over {a,b} up to length 4 plus two 24-character haystacks; plus the fixed corpus and seeded structured random patterns on their relevant-alphabet haystacks."
        " Each case runs both executors on both the optimized and the unoptimized program with the hook step counter; non-trivial iff the pattern has a quantifier and the reference model's empty-iteration rule fired or it took more than 10 steps.",
        ["bounded progress, not termination: steps(engine) <= 10^4 + 10^3 x steps(esref), both logical step counts (hook ticks / reference model steps)", "cases whose reference cost exceeds 20000 steps are inconclusive and excluded", "backtrack store bound: high-water <= (3 + groups) x (steps + 1)",
         "second stage (counters c05u16.*): the same bound for find_from_utf16 / find_from_ucs2 (utf16 build) on arbitrary u16 text incl. lone, reversed and trailing surrogates, reference model run on the decoded code points; patterns with property escapes excluded there"],
        required=["cases_where_the_empty_iteration_rule_fired", "hook.site.pike_step", "hook.pop.SetLoopData", "hook.pop.EnterNonGreedyLoop", "hook.bt.bwd.EnterLoop", "c05u16.cases_with_lone_surrogate", "c05u16.nontrivial_cases_with_lone_surrogate"],
        extra=lambda m: dict(esref_calibration=calibration(), nested_quantifier_patterns=m.c("nested_quantifier_patterns"), cases_where_the_empty_iteration_rule_fired=m.c("cases_where_the_empty_iteration_rule_fired"), exhaustive=True),
        crash_property="C05",
        extra_stages=[("utf16", "c05u16")],
    ),
    "C07": simple_check(
        "C07",
        "c07",
        "adversarial families (maxima.ladder_max_n.* = largest size driven per family, counters ladder.<family>.<outcome>) on a size ladder 1..10^5 (quick) / 10^6 (thorough); every prefix of 20 corpus patterns x 7 flag sets; seeded random mutations/splices of the corpus, syntax-character soup and raw code point sequences in 0..=0x10FFFF including surrogates (from_unicode), with and without no_opt."
        " A case is one compile call on a thread with an 8 MiB stack; distinct by (pattern, flags); non-trivial iff the pattern is non-empty.",
        ["compile-side logical step bound: 2x10^6 + 5000 x length (hook ticks in parser, optimizer and emitter); exceeding it is reported as non-termination", "process death (stack overflow, abort) is attributed to the last announced program by the supervisor", "8 MiB stack is the reference environment"],
        required=["outcome.ok", "outcome.err", "source.raw_code_points", "hook.site.parse_term", "hook.site.opt_node", "hook.site.emit_node"],
        extra=lambda m: dict(ladder=group_counters(m.counters, "ladder."), outcomes=group_counters(m.counters, "outcome."), sources=group_counters(m.counters, "source.")),
        crash_property="C07",
    ),
    "C08": simple_check(
        "C08",
        "c08",
        "exhaustive: every string up to length maxima.exhaustive_length over the syntax alphabet {a 1 \\ ( ) [ ] { } ? * | ^ - , k} (thorough: length 5, plus 6 seed-rotated alphabets of 10 core symbols + 4 of 25 extras) x {legacy, u, v}; escape tables: 44 templates x every printable ASCII character x 3 modes; ~600 targeted patterns (named groups and references, decimal/octal escapes, braces, class ranges, unicode/hex escapes, group names, modifiers, property names, class-set operators and punctuators, unbalanced fragments) x 5 flag sets; seeded structured random patterns and 3 single-edit neighbours each."
        " A case is (pattern, flags); distinct by hash; non-trivial iff the pattern contains a syntax character. Counters cell.<mode>.<agreement cell> give the four agreement cells per mode.",
        ["the oracle is esref's parser: my reading of ECMA-262 22.2.1 + Annex B.1.2 + early errors (ES2025 with modifiers and duplicate named groups)", "patterns near regress's documented resource limits (nesting 256, 65535 groups/loops) are permitted additional rejections and are skipped", "a pattern is a sequence of code points in every mode (escaped surrogate pairs denote one code point without u as well)"],
        required=["cell.legacy.both_accept", "cell.legacy.both_reject", "cell.u.both_accept", "cell.u.both_reject", "cell.v.both_accept", "cell.v.both_reject", "source.exhaustive", "source.escape_tables", "source.targeted", "source.structured"],
        extra=lambda m: dict(esref_calibration=calibration(), agreement_cells=group_counters(m.counters, "cell."), sources=group_counters(m.counters, "source."), exhaustive=True),
        crash_property="C07",
    ),
    "C09": simple_check(
        "C09",
        "c09",
        RULE_PROGRAMS + "each case is the whole history of next() calls of find_from / the PikeVM iterator / find_from_ascii (plus 3 calls after the first None) from that start, including starts len+1 and usize::MAX; compared with unfold(fresh first match at cursor, advance rule) of the same engine and with the reference model's lastIndex iteration; non-trivial iff at least one match.",
        ["the per-cursor first match is taken from a fresh iterator of the same engine (isolates cursor logic from C01); the reference-model comparison covers visibility of text before start",
         "second stage (counters c09u16.*): find_from_utf16 / find_from_ucs2 (utf16 build) on arbitrary u16 text incl. lone, reversed and trailing surrogates; 'one character' is one unit, or two for a high surrogate directly followed by a low one (UTF-16 entry point only); the reference model runs on the decoded code points (patterns with property escapes: self-unfolding oracle only); starts inside a surrogate pair are excluded"],
        required=["empty_matches_in_histories", "empty_match_before_multibyte_char", "histories_with_adjacent_matches", "histories_checked_against_reference", "histories_with_nonzero_start_and_match", "histories.find_from_ascii", "histories.pikevm", "predicate.StartAnchored", "c09u16.histories.find_from_utf16", "c09u16.histories.find_from_ucs2", "c09u16.histories_advancing_past_a_lone_surrogate", "c09u16.nontrivial_cases_with_lone_surrogate"],
        extra_stages=[("utf16", "c09u16")],
        extra=lambda m: dict(histories=group_counters(m.counters, "histories"), u16_histories=group_counters(m.counters, "c09u16.histories"), predicate_kinds=group_counters(m.counters, "predicate."), empty_matches=m.c("empty_matches_in_histories"), empty_match_before_multibyte_char=m.c("empty_match_before_multibyte_char")),
    ),
    "C10": simple_check(
        "C10",
        "c10",
        "code-space sweeps in the three modes i / iu / iv: (0) hook sweep of the engine's Canonicalize for all 1,114,112 code points x 2 relations; (1) every aligned 256-code-point block as a class /[B]/i scanned over a haystack holding every scalar value (quick: all blocks containing a case-related code point + a seed-selected eighth of the others; thorough: all 4352); (1b) every short range [lo-hi] with lo in c-2..c+1 and hi up to c+3 around every case-related code point c;"
        " (2) /c/i for code points c (quick: all case-related ones + a seed-selected 1/97 of the others; thorough: every code point incl. surrogates) run on a haystack of all case-related characters + c (thorough: case-related ones also over all scalars); (3) for every non-trivial equivalence class and ordered member pair: [c], [^c] on a member and on an outsider, (c)\\1, named backreference, backreference in lookbehind, [c-c], and the ASCII entry point for ASCII pairs; (4) \\w \\W \\b [\\w] [\\W] for every code point whose class meets the ASCII word characters."
        " A case is one (construct, mode, code point / pair / block); non-trivial iff a case-related code point is involved.",
        ["legacy relation: std (Unicode 17) char::to_uppercase with the two ECMAScript exceptions -- exact", "unicode relation: regex-syntax 16.0 simple-case-folding orbits; pairs among code points unassigned in 16.0 are taken from std 17 single-character lower/upper mappings (coverage.code_points_with_orbit_from_std17) -- an assumption for those code points"],
        required=["blocks_scanned", "short_ranges", "literal_code_points", "construct.backreference", "construct.negated_class", "construct.word_probes", "construct.ascii_literal", "hook_canonicalize_calls"],
        extra=lambda m: dict(constructs=group_counters(m.counters, "construct."), blocks_scanned=m.c("blocks_scanned"), short_ranges=m.c("short_ranges"), literal_code_points=m.c("literal_code_points"), classes=m.c("classes"), ordered_pairs=m.c("ordered_pairs"), hook_canonicalize_calls=m.c("hook_canonicalize_calls"), code_points_with_orbit_from_std17=m.c("code_points_with_orbit_from_std17") // 16),
        mem_gb=8,
    ),
    "C11": simple_check(
        "C11",
        "c11",
        "every ECMAScript spelling (53 binary properties and aliases; 38 General_Category values x long/short/extra aliases x bare / gc= / General_Category=; 175 Script values x long/ISO alias x sc / Script / scx / Script_Extensions) is compiled with \\p under u and its matched set obtained by one find_iter over a haystack holding all 1,112,064 scalar values; all spellings of a value must give the same set; \\P, [..], [^..] under u and v must give the set or its complement."
        " Layers: L1 equality with exact Unicode 17 sources (std 17, unicode-ident 17, closed forms); L2 algebra (gc leaves and scripts partition the code space, groups = unions, sc/scx inclusions, ~35 derived inclusions, Any/ASCII/Assigned); L4 equality with regex-syntax 16.0 on code points assigned in 16.0 modulo the pinned drift file; ~4000 near-miss names must be rejected; properties of strings: placement rules, 12 keycap sequences, 676 regional-indicator pairs, tag sequences, modifier sequences vs the engine's own Emoji_Modifier_Base x Emoji_Modifier, Basic_Emoji singles and VS16 forms, longest-first."
        " A case is one scanned set, identity, name probe or string membership question; non-trivial iff the set is non-empty.",
        ["L4 rests on data/ucd16_17_drift.json, produced from the pinned tree and reviewed for plausibility, not independently confirmed (a wrong entry inside the pinned drift would be missed)", "surrogate code points are not reachable through UTF-8 haystacks (gc=Cs is checked to be empty there; the UCS-2 entry point is exercised in C14)", "the sequence sub-property names (RGI_<X>_Sequence vs RGI_Emoji_<X>_Sequence) are not claimed either way", "Script=Katakana_Or_Hiragana is not claimed either way", "contents of Basic_Emoji / ZWJ / flag sets are checked structurally, not against emoji-sequences 17",
         "second stage (utf16 build, counters c11u16.*): every property value x \\p / \\P / [\\p] / [^\\p] x u / v on all 2048 surrogate code points through the UCS-2 entry point; expected: members of exactly gc=Cs, gc=C, sc/scx=Unknown, Any, Assigned"],
        required=["layer.L1_exact_unicode17", "layer.L4_cross_version", "algebra_identities", "rejected_name_probes", "string_membership_questions", "flag_sequences", "modifier_sequences", "drift_entries_used", "c11u16.surrogate_probes"],
        extra_stages=[("utf16", "c11u16")],
        extra=lambda m: dict(layers=group_counters(m.counters, "layer."), surrogate_probes_ucs2=m.c("c11u16.surrogate_probes"), property_values=m.c("property_values") // 16, spellings=m.c("spellings"), sets_scanned=m.c("sets_scanned"), algebra_identities=m.c("algebra_identities"), rejected_name_probes=m.c("rejected_name_probes"), string_membership_questions=m.c("string_membership_questions"), drift_entries_used=m.c("drift_entries_used"), flag_sequences=m.c("flag_sequences"), modifier_sequences=m.c("modifier_sequences"), exhaustive=True),
        mem_gb=8,
    ),
    "C12": simple_check(
        "C12",
        "c12",
        "enumerated class expressions /^E$/: legacy and u brackets = every sequence of up to 2 (quick) / 3 (thorough) items from 21/22 items (chars, ranges, class escapes, property escapes, fold-special chars, punctuators) x negated or not x {none,i} / {u,iu}; v classes = 23 leaf operands and ~330 nested operands (complement, union, &&, -- of 10 small operands) combined as single operand, union, && and -- of two (quick: a seed-selected sixth of the longer ones) and of three (thorough) x negated or not x {v,iv}; plus spelling-equivalence patterns."
        " Each expression is asked about 48 characters and short strings (mentioned chars, case partners, neighbours, one char per UTF-8 length, strings over the \\q alphabet). non-trivial iff the reference model needed more than 8 steps or matched.",
        ["the oracle is esref's ClassSet evaluator (sets of strings, MaybeSimpleCaseFolding, CharacterComplement per mode), independent of regress's codepointset.rs", "\\p{Lu}/\\p{Ll} membership from regex-syntax 16.0 tables (universe characters are all older than Unicode 16)"],
        extra=lambda m: dict(esref_calibration=calibration(), class_expressions=m.c("class_expressions"), esref_events=group_counters(m.counters, "esref."), pattern_features=group_counters(m.counters, "feat.")),
        required=["esref.class_string_matched", "esref.class_empty_string_matched"],
    ),
    "C14": simple_check(
        "C14",
        "c14",
        RULE_PROGRAMS + "pattern alphabets mix BMP and supplementary characters (Deseret, Adlam, emoji, U+10FFFF); each case compares find_from_utf16 on the UTF-16 encoding (offsets translated back through an independent code point map) and, on BMP-only text, find_from_ucs2, with find_from of the same binary. Second part: seeded random u16 slices of length 0..8 over 12 units (lone, reversed and trailing surrogates) x 24 patterns x every start 0..=len+1 and usize::MAX x both entry points: no panic, fuel not exhausted, ranges inside the slice and increasing. non-trivial iff a match was found / the slice has a lone surrogate.",
        ["built with the utf16 feature (the UTF-8 entry points of that build are the comparison side)",
         "second stage (counters c14u16.*): the robustness clause on a program stream -- fixed corpus + seeded structured patterns x u16 texts made of the pattern's characters, their surrogate halves and unrelated surrogates x every start offset incl. those between the halves of a pair x both entry points: no panic (debug assertions of the crate on), ranges inside the slice and increasing, termination within 2x10^7 steps whenever the reference search over the decoded text needs fewer than 2x10^4"],
        variant="utf16",
        required=["pairs.utf16", "pairs.ucs2", "pairs_with_supplementary_text", "arbitrary_u16_cases_with_lone_surrogate", "c14u16.robust_cases_with_start_inside_a_pair", "c14u16.cases_with_lone_surrogate"],
        extra_stages=[("utf16", "c14u16")],
        extra=lambda m: dict(pairs=group_counters(m.counters, "pairs"), arbitrary_u16_cases_with_lone_surrogate=m.c("arbitrary_u16_cases_with_lone_surrogate"), robust_cases_with_start_inside_a_pair=m.c("c14u16.robust_cases_with_start_inside_a_pair")),
    ),
    "C20": simple_check(
        "C20",
        "c20",
        "30 regexes (empty matches, adjacent matches, matches at both ends, multi-byte, anchors, lookbehind, no match) x every haystack up to length 4 (quick) / 6 (thorough) over {a, 1, e-acute} plus 8 longer ones: the full step stream of <&Regex as Pattern>::into_searcher driven by next() to Done (+3 extra calls), by next_back() to Done, and by 3 seeded interleavings of both; and a battery of str methods (find, contains, matches, match_indices, split, splitn, split_terminator, replace, strip_prefix, trim_start_matches, rfind, rmatches, rmatch_indices, rsplit)."
        " Forward: steps adjacent, non-overlapping, covering [0,len], on char boundaries, no empty Reject, Match steps == find_iter, Done absorbing. Backward: the mirror tiling from len to 0, every Match step a real match of the regex. Interleaved: the forward steps tile a prefix, the backward steps a suffix. str methods: equal to a model computed from find_iter (forward) / internally consistent and panic-free (reverse). non-trivial iff the regex matches in the haystack.",
        ["nightly toolchain, regress feature 'pattern'", "the type is not a DoubleEndedSearcher, so nothing is required about the two cursors meeting"],
        variant="pattern",
        required=["forward_streams", "backward_streams", "interleavings", "str_method_batteries", "streams_with_empty_matches", "streams_over_multibyte_text"],
        extra=lambda m: dict(forward_streams=m.c("forward_streams"), backward_streams=m.c("backward_streams"), interleavings=m.c("interleavings"), str_method_batteries=m.c("str_method_batteries"), streams_with_empty_matches=m.c("streams_with_empty_matches"), streams_over_multibyte_text=m.c("streams_over_multibyte_text")),
    ),
    "C16": simple_check(
        "C16",
        "c16",
        "fixed patterns rich in named / unnamed / duplicate-named groups (also inside lookbehind) + seeded structured random patterns biased to named groups; every match of find_from on every relevant-alphabet haystack and start is inspected: captures.len, group(i) for 0..=n+2 and usize::MAX, groups() items and size_hint/len at every step, named_group for every name / \"\" / an absent name, named_groups() items, order and size_hint/len. Ground truth for group count, names and their source order comes from the reference parser. non-trivial iff the case had a match and the pattern has groups.",
        ["the participating duplicate is the first same-named group whose capture is Some (at most one can be)"],
        required=["matches_with_named_groups", "matches_where_a_later_duplicate_participated", "matches_of_programs_with_groups_in_lookbehind"],
        extra=lambda m: dict(matches_inspected=m.c("matches_inspected"), matches_with_named_groups=m.c("matches_with_named_groups"), later_duplicate_participated=m.c("matches_where_a_later_duplicate_participated"), groups_in_lookbehind=m.c("matches_of_programs_with_groups_in_lookbehind")),
    ),
    "C17": simple_check(
        "C17",
        "c17",
        "15 regexes (empty, adjacent, multi-byte, non-participating, duplicate-named and lookbehind groups) x 14 haystacks x templates: every string up to length 3 (quick) / 4 (thorough) over {$,0,1,2,9,{,},a,n,e-acute,x} plus seeded random concatenations of 27 template pieces; replace, replace_all, replace_with, replace_all_with (identity and constant closures). non-trivial iff there was a match and the template contains '$'.",
        ["model: splice over the engine's own find_iter sequence with an expand() written from the property statement", "templates with a digit run above 65535 are outside what the statement defines and are excluded from the equality (counted)"],
        required=["cases_without_match", "templates_with_group_number_above_65535_excluded"],
        extra=lambda m: dict(templates=m.c("templates"), excluded_big_group_numbers=m.c("templates_with_group_number_above_65535_excluded")),
    ),
    "C18": simple_check(
        "C18",
        "c18",
        "every string s up to length 2 (quick) / 3 (thorough) over 41 characters (all 14 syntax characters, v-mode punctuators, letters with fold partners, multi-byte, line terminators) plus seeded random longer strings; escape(s) compiled under all 24 flag sets and searched in 5 haystacks with s (and case variants) planted. non-trivial iff s is non-empty and occurs.",
        ["second stage (nightly pattern build, counters c18pat.*): escape(s) as a std::str::pattern::Pattern -- match_indices / split / contains / find against the same occurrence oracle (without i)", "without i the oracle is naive substring search with the find_iter advance rule; with i character-wise comparison under uniref's canonical equivalence (legacy: std to_uppercase rule; u/v: simple case folding orbits)"],
        required=["case_insensitive_cases", "case_related_single_character_strings", "c18pat.pattern_trait_cases", "c18u16.utf16_cases"],
        extra_stages=[("pattern", "c18pat"), ("utf16", "c18u16")],
        extra=lambda m: dict(strings=m.c("strings"), case_related_single_character_strings=m.c("case_related_single_character_strings"), pattern_trait_cases=m.c("c18pat.pattern_trait_cases"), exhaustive=True),
    ),
    "C13": simple_check(
        "C13",
        "c13",
        RULE_PROGRAMS + "haystacks are ASCII only, every byte offset is a start; non-trivial iff the UTF-8 entry point found at least one match.",
        ["differential monitor between find_from_ascii and find_from", "further stages: the same monitor in the utf16 build (literals are code point instructions instead of byte sequences) and in the index-positions + prohibit-unsafe build (checked accessors); their counters are added to the first stage's"],
        required=["pairs_with_nonascii_pattern"],
        extra=c13_extra,
        extra_stages=[("utf16", "c13"), ("idxsafe", "c13")],
    ),
}


CHECKS["C15"] = check_c15
CHECKS["C06"] = check_c06
CHECKS["C19"] = check_c19


def main(argv):
    if not argv:
        print(__doc__)
        return 2
    pid = argv[0].upper()
    tier = os.environ.get("VERIF_TIER") or "quick"
    replay = None
    rest = argv[1:]
    i = 0
    while i < len(rest):
        if rest[i] == "--replay":
            replay = rest[i + 1]
            i += 2
        elif rest[i] in ("quick", "thorough"):
            if not os.environ.get("VERIF_TIER"):
                tier = rest[i]
            i += 1
        else:
            print("unknown argument %r" % rest[i])
            return 2
    if tier not in ("quick", "thorough"):
        tier = "quick"
    try:
        seed = int(os.environ.get("VERIF_SEED", "1"))
    except ValueError:
        seed = 1
    if pid not in CHECKS:
        print("unknown check %s" % pid)
        return 2
    try:
        return CHECKS[pid](tier, seed, replay)
    except HarnessError as e:
        log("HARNESS ERROR: %s" % e)
        return 2
