//! Thin observation layer over the real regress API: compile, run the different executors and
//! entry points, with panics and fuel exhaustion turned into values.

use crate::esref::Flags;
use std::panic::{catch_unwind, AssertUnwindSafe};

pub type Span = (usize, usize);

/// A match as observed at the public API (byte offsets for str APIs, u16 indices for UTF-16).
#[derive(Clone, Debug, PartialEq, Eq, Hash)]
pub struct EMatch {
    pub range: Span,
    pub caps: Vec<Option<Span>>,
}

impl EMatch {
    pub fn from(m: &regress::Match) -> EMatch {
        EMatch { range: (m.range.start, m.range.end), caps: m.captures.iter().map(|c| c.as_ref().map(|r| (r.start, r.end))).collect() }
    }
    pub fn show(&self) -> String {
        let mut s = format!("{}..{}", self.range.0, self.range.1);
        s.push_str(" [");
        for (i, c) in self.caps.iter().enumerate() {
            if i > 0 {
                s.push(',');
            }
            match c {
                Some((a, b)) => s.push_str(&format!("{}..{}", a, b)),
                None => s.push('-'),
            }
        }
        s.push(']');
        s
    }
}

pub fn show_matches(ms: &[EMatch]) -> String {
    let v: Vec<String> = ms.iter().map(|m| m.show()).collect();
    format!("{{{}}}", v.join(" "))
}

/// Result of a guarded engine call.
#[derive(Clone, Debug, PartialEq, Eq)]
pub enum Guarded<T> {
    Ok(T),
    /// The engine panicked (message, location).
    Panic(String),
    /// The logical step budget ran out (hook fuel).
    Fuel,
}

impl<T> Guarded<T> {
    pub fn ok(self) -> Option<T> {
        match self {
            Guarded::Ok(t) => Some(t),
            _ => None,
        }
    }
    pub fn is_ok(&self) -> bool {
        matches!(self, Guarded::Ok(_))
    }
    pub fn describe_short(&self) -> String {
        match self {
            Guarded::Ok(_) => "returned".to_string(),
            Guarded::Panic(m) => format!("PANIC({})", m),
            Guarded::Fuel => "FUEL-EXHAUSTED".to_string(),
        }
    }
    pub fn describe(&self) -> String
    where
        T: std::fmt::Debug,
    {
        match self {
            Guarded::Ok(t) => format!("{:?}", t),
            Guarded::Panic(m) => format!("PANIC({})", m),
            Guarded::Fuel => "FUEL-EXHAUSTED".to_string(),
        }
    }
}

thread_local! {
    static LAST_PANIC: std::cell::RefCell<Option<String>> = const { std::cell::RefCell::new(None) };
}

/// Install a panic hook that records the message and location instead of printing.
pub fn install_quiet_panic_hook() {
    std::panic::set_hook(Box::new(|info| {
        let loc = info.location().map(|l| format!("{}:{}", l.file(), l.line())).unwrap_or_default();
        let msg = if let Some(s) = info.payload().downcast_ref::<&str>() {
            s.to_string()
        } else if let Some(s) = info.payload().downcast_ref::<String>() {
            s.clone()
        } else {
            #[cfg(feature = "hooks")]
            {
                if info.payload().downcast_ref::<regress::verif::FuelExhausted>().is_some() {
                    "FuelExhausted".to_string()
                } else {
                    "<non-string panic payload>".to_string()
                }
            }
            #[cfg(not(feature = "hooks"))]
            {
                "<non-string panic payload>".to_string()
            }
        };
        LAST_PANIC.with(|p| *p.borrow_mut() = Some(format!("{} @ {}", msg, loc)));
    }));
}

pub const DEFAULT_FUEL: u64 = 20_000_000;

/// Run `f` with the hook fuel armed; convert panics / fuel exhaustion to values.
pub fn guarded<T>(fuel: u64, f: impl FnOnce() -> T) -> Guarded<T> {
    #[cfg(feature = "hooks")]
    regress::verif::set_fuel(Some(fuel));
    let _ = fuel;
    LAST_PANIC.with(|p| *p.borrow_mut() = None);
    let r = catch_unwind(AssertUnwindSafe(f));
    #[cfg(feature = "hooks")]
    regress::verif::set_fuel(None);
    match r {
        Ok(t) => Guarded::Ok(t),
        Err(payload) => {
            #[cfg(feature = "hooks")]
            if payload.downcast_ref::<regress::verif::FuelExhausted>().is_some() {
                return Guarded::Fuel;
            }
            let _ = payload;
            Guarded::Panic(LAST_PANIC.with(|p| p.borrow_mut().take()).unwrap_or_else(|| "<unknown panic>".into()))
        }
    }
}

pub fn rflags(f: Flags, no_opt: bool) -> regress::Flags {
    regress::Flags { icase: f.i, multiline: f.m, dot_all: f.s, no_opt: no_opt || f.n, unicode: f.u, unicode_sets: f.v }
}

/// Compile from code points. Ok(Ok(re)) / Ok(Err(msg)) / panic / fuel.
pub fn compile(cps: &[u32], f: Flags, no_opt: bool) -> Guarded<Result<regress::Regex, String>> {
    // Half of the programs that can be (valid scalar values, optimizer on) go through the string
    // entry points with the flags spelled as JavaScript letters -- Regex::with_flags(&str, &str),
    // Regex::new / FromStr without flags -- so that flag parsing is on the observed path as well;
    // the letters are written in a pattern-dependent order, with a duplicate and an unsupported one.
    if !no_opt && !f.n && cps.len() % 2 == 0 {
        if let Some(text) = cps.iter().map(|&c| char::from_u32(c)).collect::<Option<String>>() {
            let mut letters: Vec<char> = Vec::new();
            for (on, l) in [(f.i, 'i'), (f.m, 'm'), (f.s, 's'), (f.u, 'u'), (f.v, 'v')] {
                if on {
                    letters.push(l);
                }
            }
            if cps.len() % 4 == 0 {
                letters.reverse();
            }
            if let Some(&first) = letters.first() {
                if cps.len() % 8 == 0 {
                    letters.push(first);
                    letters.push('y');
                }
            }
            let fs: String = letters.into_iter().collect();
            return guarded(DEFAULT_FUEL, || {
                if fs.is_empty() && text.len() % 3 == 0 {
                    text.parse::<regress::Regex>().map_err(|e| e.text)
                } else if fs.is_empty() {
                    regress::Regex::new(&text).map_err(|e| e.text)
                } else {
                    regress::Regex::with_flags(&text, fs.as_str()).map_err(|e| e.text)
                }
            });
        }
    }
    guarded(DEFAULT_FUEL, || regress::Regex::from_unicode(cps.iter().copied(), rflags(f, no_opt)).map_err(|e| e.text))
}

#[derive(Clone, Copy, Debug, PartialEq, Eq, Hash)]
pub enum Api {
    /// Regex::find_from (backtracking, UTF-8)
    Utf8,
    /// backends::find::<PikeVMExecutor>
    Pike,
    /// Regex::find_from_ascii (backtracking, ASCII)
    Ascii,
    /// backends::find_ascii::<PikeVMExecutor>
    PikeAscii,
}

pub const MAX_MATCHES: usize = 10_000;

/// Collect the full match sequence from `start` using the given entry point.
pub fn find_all(re: &regress::Regex, text: &str, start: usize, api: Api, fuel: u64) -> Guarded<Vec<EMatch>> {
    guarded(fuel, || {
        let mut out = Vec::new();
        match api {
            Api::Utf8 => {
                for m in re.find_from(text, start).take(MAX_MATCHES) {
                    out.push(EMatch::from(&m));
                }
            }
            Api::Ascii => {
                for m in re.find_from_ascii(text, start).take(MAX_MATCHES) {
                    out.push(EMatch::from(&m));
                }
            }
            #[cfg(feature = "re-pikevm")]
            Api::Pike => {
                for m in regress::backends::find::<regress::backends::PikeVMExecutor>(re, text, start).take(MAX_MATCHES) {
                    out.push(EMatch::from(&m));
                }
            }
            #[cfg(feature = "re-pikevm")]
            Api::PikeAscii => {
                for m in regress::backends::find_ascii::<regress::backends::PikeVMExecutor>(re, text, start).take(MAX_MATCHES) {
                    out.push(EMatch::from(&m));
                }
            }
            #[cfg(not(feature = "re-pikevm"))]
            _ => {}
        }
        out
    })
}

/// First match only.
pub fn find_first(re: &regress::Regex, text: &str, start: usize, api: Api, fuel: u64) -> Guarded<Option<EMatch>> {
    guarded(fuel, || match api {
        Api::Utf8 => re.find_from(text, start).next().map(|m| EMatch::from(&m)),
        Api::Ascii => re.find_from_ascii(text, start).next().map(|m| EMatch::from(&m)),
        #[cfg(feature = "re-pikevm")]
        Api::Pike => regress::backends::find::<regress::backends::PikeVMExecutor>(re, text, start).next().map(|m| EMatch::from(&m)),
        #[cfg(feature = "re-pikevm")]
        Api::PikeAscii => regress::backends::find_ascii::<regress::backends::PikeVMExecutor>(re, text, start).next().map(|m| EMatch::from(&m)),
        #[cfg(not(feature = "re-pikevm"))]
        _ => None,
    })
}

/// Range monitor (C06a): 0 <= s <= e <= len, on char boundaries, for the match and every capture.
pub fn check_ranges(text: &str, m: &EMatch) -> Result<(), String> {
    let chk = |what: &str, (s, e): Span| -> Result<(), String> {
        if !(s <= e && e <= text.len()) {
            return Err(format!("{} range {}..{} out of order / out of bounds (len {})", what, s, e, text.len()));
        }
        if !text.is_char_boundary(s) || !text.is_char_boundary(e) {
            return Err(format!("{} range {}..{} not on char boundaries", what, s, e));
        }
        Ok(())
    };
    chk("match", m.range)?;
    for (i, c) in m.caps.iter().enumerate() {
        if let Some(r) = c {
            chk(&format!("capture {}", i + 1), *r)?;
        }
    }
    Ok(())
}

/// Offsets conversion helpers between code point indices and UTF-8 byte offsets.
pub struct CpIndex {
    /// byte offset of each code point, plus the total length at the end
    pub offs: Vec<usize>,
}

impl CpIndex {
    pub fn new(text: &str) -> CpIndex {
        let mut offs: Vec<usize> = text.char_indices().map(|(i, _)| i).collect();
        offs.push(text.len());
        CpIndex { offs }
    }
    pub fn byte(&self, cp: usize) -> usize {
        self.offs[cp]
    }
    pub fn cp_of_byte(&self, b: usize) -> Option<usize> {
        self.offs.binary_search(&b).ok()
    }
    pub fn ncp(&self) -> usize {
        self.offs.len() - 1
    }
}

pub fn to_cps(s: &str) -> Vec<u32> {
    s.chars().map(|c| c as u32).collect()
}

pub fn cps_to_string_lossy(cps: &[u32]) -> String {
    cps.iter()
        .map(|&c| match char::from_u32(c) {
            Some(ch) => ch.to_string(),
            None => format!("\\u{{{:X}}}", c),
        })
        .collect()
}

/// Convert a reference match (code point indices) to byte offsets.
pub fn ref_to_ematch(m: &crate::esref::MatchResult, idx: &CpIndex) -> EMatch {
    EMatch { range: (idx.byte(m.start), idx.byte(m.end)), caps: m.caps.iter().map(|c| c.map(|(a, b)| (idx.byte(a), idx.byte(b)))).collect() }
}

#[cfg(feature = "hooks")]
pub use regress::verif as hooks;
