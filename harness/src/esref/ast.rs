//! AST of the reference model. Flags in force (after modifiers) are resolved onto the nodes.

use crate::rangeset::RangeSet;

#[derive(Clone, Debug, PartialEq)]
pub enum ClassEscape {
    /// \d / \D
    Digit { neg: bool },
    /// \s / \S
    Space { neg: bool },
    /// \w / \W
    Word { neg: bool },
    /// \p{..} / \P{..} of a property of code points. `set` is None when no data is available
    /// to the reference model (the matcher then reports Unsupported).
    Prop { neg: bool, name: String, set: Option<RangeSet>, exact17: bool },
}

#[derive(Clone, Debug, PartialEq)]
pub enum ClassItem {
    Char(u32),
    Range(u32, u32),
    Escape(ClassEscape),
}

/// ClassSetOperand (v mode).
#[derive(Clone, Debug, PartialEq)]
pub enum VOperand {
    Char(u32),
    Range(u32, u32),
    Escape(ClassEscape),
    /// \q{a|bc|}
    Strings(Vec<Vec<u32>>),
    /// \p{RGI_Emoji} etc.; None when the reference model has no data for it.
    StringProp { name: String, strings: Option<Vec<Vec<u32>>> },
    Nested { neg: bool, expr: Box<VExpr> },
}

/// ClassSetExpression (v mode).
#[derive(Clone, Debug, PartialEq)]
pub enum VExpr {
    Union(Vec<VOperand>),
    Inter(Vec<VOperand>),
    Sub(Vec<VOperand>),
}

#[derive(Clone, Debug, PartialEq)]
pub enum ClassNode {
    /// A class escape used as an atom (\d, \p{..}).
    Escape(ClassEscape),
    /// Legacy / `u` bracket.
    Bracket { neg: bool, items: Vec<ClassItem> },
    /// `v` bracket.
    VClass { neg: bool, expr: VExpr },
    /// \p{string property} used as an atom under `v`.
    StringProp { name: String, strings: Option<Vec<Vec<u32>>> },
}

#[derive(Clone, Debug, PartialEq)]
pub enum Node {
    Empty,
    Char { c: u32, i: bool },
    Dot { s: bool },
    Class { cls: ClassNode, i: bool },
    LineStart { m: bool },
    LineEnd { m: bool },
    WordBoundary { neg: bool, i: bool },
    /// Capturing group; `index` is 1-based in left-parenthesis order.
    Group { index: usize, name: Option<String>, body: Box<Node> },
    /// Backreference. For numbered references `groups` has one element; for named references
    /// all groups with that name.
    BackRef { groups: Vec<usize>, i: bool },
    Look { behind: bool, neg: bool, body: Box<Node> },
    Quant { body: Box<Node>, min: u64, max: Option<u64>, greedy: bool, paren_index: usize, paren_count: usize },
    Seq(Vec<Node>),
    Alt(Vec<Node>),
}

#[derive(Clone, Debug)]
pub struct Pattern {
    pub node: Node,
    pub flags: super::Flags,
    /// Number of capturing groups.
    pub ngroups: usize,
    /// Group names by 1-based index (index 0 unused), None for unnamed groups.
    pub group_names: Vec<Option<String>>,
    /// Syntactic feature counters (for evidence / non-triviality).
    pub features: Features,
}

#[derive(Clone, Debug, Default)]
pub struct Features {
    pub quantifiers: usize,
    pub lazy_quantifiers: usize,
    pub groups: usize,
    pub named_groups: usize,
    pub alternations: usize,
    pub lookaheads: usize,
    pub lookbehinds: usize,
    pub backrefs: usize,
    pub named_backrefs: usize,
    pub classes: usize,
    pub class_escapes: usize,
    pub prop_escapes: usize,
    pub anchors: usize,
    pub word_boundaries: usize,
    pub modifiers: usize,
    pub dots: usize,
    pub vclasses: usize,
    pub string_classes: usize,
    pub legacy_quirks: usize,
}

impl Features {
    pub fn nontrivial(&self) -> bool {
        self.quantifiers + self.groups + self.alternations + self.lookaheads + self.lookbehinds + self.backrefs > 0
    }
}
