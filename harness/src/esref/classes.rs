//! Character class semantics of the reference model (ES2025 22.2.2.9 CompileToCharSet,
//! CharacterSetMatcher, MaybeSimpleCaseFolding, CharacterComplement, WordCharacters).

use super::ast::*;
use crate::rangeset::RangeSet;
use crate::uniref::{self, case_data};
use std::sync::OnceLock;

/// The flags a class is evaluated under.
#[derive(Clone, Copy, Debug, PartialEq, Eq, Hash)]
pub struct Ctx {
    /// HasEitherUnicodeFlag (u or v)
    pub unicode: bool,
    /// UnicodeSets (v)
    pub v: bool,
    /// IgnoreCase in force at the node
    pub icase: bool,
}

/// The reference model has no data to decide this construct.
#[derive(Clone, Debug, PartialEq, Eq)]
pub struct Unsupported(pub String);

/// WordCharacters(rer) (22.2.2.9.7): the 63 basic word characters plus, when both a Unicode flag
/// and IgnoreCase are set, the characters whose Canonicalize is a basic word character.
pub fn word_characters(ctx: Ctx) -> &'static RangeSet {
    static BASIC: OnceLock<RangeSet> = OnceLock::new();
    static EXT: OnceLock<RangeSet> = OnceLock::new();
    if ctx.unicode && ctx.icase {
        EXT.get_or_init(|| case_data().saturate(&uniref::es_word_basic(), true))
    } else {
        BASIC.get_or_init(uniref::es_word_basic)
    }
}

/// Membership of `c` in the CharSet denoted by a class escape (no case handling here).
pub fn escape_contains(e: &ClassEscape, c: u32, ctx: Ctx) -> Result<bool, Unsupported> {
    Ok(match e {
        ClassEscape::Digit { neg } => (0x30..=0x39).contains(&c) != *neg,
        ClassEscape::Space { neg } => uniref::es_space().contains(c) != *neg,
        ClassEscape::Word { neg } => word_characters(ctx).contains(c) != *neg,
        ClassEscape::Prop { neg, set, name, .. } => match set {
            Some(s) => s.contains(c) != *neg,
            None => return Err(Unsupported(format!("no reference data for \\p{{{}}}", name))),
        },
    })
}

fn item_contains(it: &ClassItem, c: u32, ctx: Ctx) -> Result<bool, Unsupported> {
    Ok(match it {
        ClassItem::Char(x) => *x == c,
        ClassItem::Range(a, b) => *a <= c && c <= *b,
        ClassItem::Escape(e) => escape_contains(e, c, ctx)?,
    })
}

/// CharacterSetMatcher for the non-`v` forms: a class escape atom or a legacy / `u` bracket.
/// "There exists a member a of A such that Canonicalize(a) is Canonicalize(ch)", then invert.
pub fn nonv_matches(cls: &ClassNode, chr: u32, ctx: Ctx) -> Result<bool, Unsupported> {
    let cands: Vec<u32> = if ctx.icase { case_data().class_of(chr, ctx.unicode) } else { vec![chr] };
    match cls {
        ClassNode::Escape(e) => {
            for d in cands {
                if escape_contains(e, d, ctx)? {
                    return Ok(true);
                }
            }
            Ok(false)
        }
        ClassNode::Bracket { neg, items } => {
            let mut found = false;
            'outer: for d in cands {
                for it in items {
                    if item_contains(it, d, ctx)? {
                        found = true;
                        break 'outer;
                    }
                }
            }
            Ok(found != *neg)
        }
        _ => Err(Unsupported("not a non-v class".into())),
    }
}

/// A fully evaluated `v`-mode CharSet. Under IgnoreCase the code point part is stored
/// *saturated* (closed under simple-case-folding equivalence) and string members are stored by
/// the smallest member of each character's equivalence class. Saturation is a lattice isomorphism
/// between sets of folded characters and equivalence-closed sets, so union, intersection,
/// subtraction and CharacterComplement (relative to AllCharacters = the folded characters)
/// commute with it; a character matches iff it is in the saturated set.
#[derive(Clone, Debug, PartialEq, Eq, Default)]
pub struct VSet {
    pub cps: RangeSet,
    /// Strings of length != 1 (the empty string included), deduplicated.
    pub strings: Vec<Vec<u32>>,
}

fn sat(s: RangeSet, ctx: Ctx) -> RangeSet {
    if ctx.icase {
        case_data().saturate(&s, true)
    } else {
        s
    }
}

fn add_strings(out: &mut VSet, alts: &[Vec<u32>], ctx: Ctx) {
    for a in alts {
        if a.len() == 1 {
            out.cps = out.cps.union(&sat(RangeSet::single(a[0]), ctx));
        } else {
            let m: Vec<u32> = if ctx.icase { a.iter().map(|&c| case_data().rep(c, true)).collect() } else { a.clone() };
            if !out.strings.contains(&m) {
                out.strings.push(m);
            }
        }
    }
}

fn eval_operand(o: &VOperand, ctx: Ctx) -> Result<VSet, Unsupported> {
    let mut v = VSet::default();
    match o {
        VOperand::Char(c) => v.cps = sat(RangeSet::single(*c), ctx),
        VOperand::Range(a, b) => v.cps = sat(RangeSet::from_range(*a, *b), ctx),
        VOperand::Escape(e) => {
            let (pos, neg) = match e {
                ClassEscape::Digit { neg } => (uniref::es_digit(), *neg),
                ClassEscape::Space { neg } => (uniref::es_space().clone(), *neg),
                ClassEscape::Word { neg } => (word_characters(ctx).clone(), *neg),
                ClassEscape::Prop { neg, set, name, .. } => match set {
                    Some(s) => (s.clone(), *neg),
                    None => return Err(Unsupported(format!("no reference data for \\p{{{}}}", name))),
                },
            };
            let s = sat(pos, ctx);
            v.cps = if neg { s.complement() } else { s };
        }
        VOperand::Strings(alts) => add_strings(&mut v, alts, ctx),
        VOperand::StringProp { name, strings } => match strings {
            Some(alts) => add_strings(&mut v, alts, ctx),
            None => return Err(Unsupported(format!("no reference data for \\p{{{}}}", name))),
        },
        VOperand::Nested { neg, expr } => {
            let inner = eval_vexpr(expr, ctx)?;
            if *neg {
                v.cps = inner.cps.complement();
            } else {
                v = inner;
            }
        }
    }
    Ok(v)
}

pub fn eval_vexpr(e: &VExpr, ctx: Ctx) -> Result<VSet, Unsupported> {
    match e {
        VExpr::Union(ops) => {
            let mut acc = VSet::default();
            for o in ops {
                let x = eval_operand(o, ctx)?;
                acc.cps = acc.cps.union(&x.cps);
                for s in x.strings {
                    if !acc.strings.contains(&s) {
                        acc.strings.push(s);
                    }
                }
            }
            Ok(acc)
        }
        VExpr::Inter(ops) => {
            let mut acc = eval_operand(&ops[0], ctx)?;
            for o in &ops[1..] {
                let x = eval_operand(o, ctx)?;
                acc.cps = acc.cps.intersect(&x.cps);
                acc.strings.retain(|s| x.strings.contains(s));
            }
            Ok(acc)
        }
        VExpr::Sub(ops) => {
            let mut acc = eval_operand(&ops[0], ctx)?;
            for o in &ops[1..] {
                let x = eval_operand(o, ctx)?;
                acc.cps = acc.cps.subtract(&x.cps);
                acc.strings.retain(|s| !x.strings.contains(s));
            }
            Ok(acc)
        }
    }
}

/// Evaluate a `v`-mode class node (bracket, or property-of-strings atom).
pub fn eval_vclass(cls: &ClassNode, ctx: Ctx) -> Result<VSet, Unsupported> {
    match cls {
        ClassNode::VClass { neg, expr } => {
            let s = eval_vexpr(expr, ctx)?;
            if *neg {
                Ok(VSet { cps: s.cps.complement(), strings: vec![] })
            } else {
                Ok(s)
            }
        }
        ClassNode::StringProp { name, strings } => match strings {
            Some(alts) => {
                let mut v = VSet::default();
                add_strings(&mut v, alts, ctx);
                Ok(v)
            }
            None => Err(Unsupported(format!("no reference data for \\p{{{}}}", name))),
        },
        _ => Err(Unsupported("not a v class".into())),
    }
}

/// Does text character `t` match pattern string character `p` (already mapped to its class
/// representative when `ctx.icase`)?
pub fn string_char_matches(p: u32, t: u32, ctx: Ctx) -> bool {
    if ctx.icase {
        case_data().rep(t, true) == p
    } else {
        p == t
    }
}
