//! Parser for ECMAScript 2025 regular expression patterns: the strict grammar (`u`), the class-set
//! grammar (`v`) and the Annex B.1.2 legacy grammar (neither), with all early errors.
//!
//! Patterns are sequences of code points. Following regress's documented model (and DESIGN.md
//! Appendix A "Units"), a supplementary code point is one pattern character in every mode.

use super::ast::*;
use super::props;
use super::Flags;
use crate::uniref::{self, PropLookup};
use std::collections::HashMap;

#[derive(Clone, Debug, PartialEq, Eq)]
pub struct ParseError {
    pub msg: String,
    pub pos: usize,
}

type PResult<T> = Result<T, ParseError>;

#[derive(Clone, Copy, Debug)]
struct Modes {
    i: bool,
    m: bool,
    s: bool,
}

struct NamedGroupInfo {
    index: usize,
    name: String,
    /// (disjunction id, alternative index) from the root to the group.
    path: Vec<(usize, usize)>,
}

struct Parser<'a> {
    src: &'a [u32],
    pos: usize,
    flags: Flags,
    /// First pass: group count / names unknown, be lenient about \N and \k.
    lenient: bool,
    total_groups: usize,
    has_names: bool,
    names: HashMap<String, Vec<usize>>,
    // running state
    groups_seen: usize,
    modes: Modes,
    named: Vec<NamedGroupInfo>,
    group_names: Vec<Option<String>>,
    path: Vec<(usize, usize)>,
    next_disj_id: usize,
    depth: usize,
    pub max_depth: usize,
    feat: Features,
}

const C_BACKSLASH: u32 = '\\' as u32;

fn ch(c: char) -> u32 {
    c as u32
}

fn is_syntax_char(c: u32) -> bool {
    matches!(char::from_u32(c), Some('^' | '$' | '\\' | '.' | '*' | '+' | '?' | '(' | ')' | '[' | ']' | '{' | '}' | '|'))
}

fn is_dec(c: u32) -> bool {
    (0x30..=0x39).contains(&c)
}
fn is_oct(c: u32) -> bool {
    (0x30..=0x37).contains(&c)
}
fn hex_val(c: u32) -> Option<u32> {
    match c {
        0x30..=0x39 => Some(c - 0x30),
        0x41..=0x46 => Some(c - 0x41 + 10),
        0x61..=0x66 => Some(c - 0x61 + 10),
        _ => None,
    }
}
fn is_ascii_letter(c: u32) -> bool {
    (0x41..=0x5A).contains(&c) || (0x61..=0x7A).contains(&c)
}

fn is_class_set_syntax_char(c: u32) -> bool {
    matches!(char::from_u32(c), Some('(' | ')' | '[' | ']' | '{' | '}' | '/' | '-' | '\\' | '|'))
}
fn is_class_set_reserved_punct(c: u32) -> bool {
    matches!(char::from_u32(c), Some('&' | '-' | '!' | '#' | '%' | ',' | ':' | ';' | '<' | '=' | '>' | '@' | '`' | '~'))
}
fn is_double_punct_char(c: u32) -> bool {
    matches!(
        char::from_u32(c),
        Some('&' | '!' | '#' | '$' | '%' | '*' | '+' | ',' | '.' | ':' | ';' | '<' | '=' | '>' | '?' | '@' | '^' | '`' | '~')
    )
}

/// Compare two decimal digit strings numerically.
fn dec_cmp(a: &[u32], b: &[u32]) -> std::cmp::Ordering {
    let strip = |x: &[u32]| -> Vec<u32> {
        let mut i = 0;
        while i + 1 < x.len() && x[i] == 0x30 {
            i += 1;
        }
        x[i..].to_vec()
    };
    let a = strip(a);
    let b = strip(b);
    a.len().cmp(&b.len()).then_with(|| a.cmp(&b))
}

fn dec_value_sat(d: &[u32]) -> u64 {
    let mut v: u64 = 0;
    for &c in d {
        v = v.saturating_mul(10).saturating_add((c - 0x30) as u64);
    }
    v
}

enum Atomish {
    /// A node that may be followed by a quantifier.
    Quantifiable(Node),
    /// An assertion that may not be quantified.
    Assertion(Node),
}

impl<'a> Parser<'a> {
    fn err<T>(&self, msg: &str) -> PResult<T> {
        Err(ParseError { msg: msg.to_string(), pos: self.pos })
    }
    fn peek(&self) -> Option<u32> {
        self.src.get(self.pos).copied()
    }
    fn peek_at(&self, k: usize) -> Option<u32> {
        self.src.get(self.pos + k).copied()
    }
    fn eat(&mut self, c: char) -> bool {
        if self.peek() == Some(c as u32) {
            self.pos += 1;
            true
        } else {
            false
        }
    }
    fn looking_at(&self, s: &str) -> bool {
        let mut k = 0;
        for c in s.chars() {
            if self.peek_at(k) != Some(c as u32) {
                return false;
            }
            k += 1;
        }
        true
    }
    fn eat_str(&mut self, s: &str) -> bool {
        if self.looking_at(s) {
            self.pos += s.chars().count();
            true
        } else {
            false
        }
    }
    fn umode(&self) -> bool {
        self.flags.u || self.flags.v
    }
    /// [+NamedCaptureGroups]
    fn n_param(&self) -> bool {
        self.umode() || self.has_names
    }

    fn enter(&mut self) -> PResult<()> {
        self.depth += 1;
        if self.depth > self.max_depth {
            self.max_depth = self.depth;
        }
        if self.depth > 20000 {
            return self.err("nesting too deep for the reference parser");
        }
        Ok(())
    }
    fn leave(&mut self) {
        self.depth -= 1;
    }

    // Disjunction :: Alternative | Alternative '|' Disjunction
    fn disjunction(&mut self) -> PResult<Node> {
        self.enter()?;
        let id = self.next_disj_id;
        self.next_disj_id += 1;
        let mut alts = Vec::new();
        let mut idx = 0usize;
        loop {
            self.path.push((id, idx));
            let a = self.alternative();
            self.path.pop();
            alts.push(a?);
            if self.eat('|') {
                idx += 1;
                continue;
            }
            break;
        }
        self.leave();
        if alts.len() == 1 {
            Ok(alts.pop().unwrap())
        } else {
            self.feat.alternations += 1;
            Ok(Node::Alt(alts))
        }
    }

    fn alternative(&mut self) -> PResult<Node> {
        let mut terms = Vec::new();
        loop {
            match self.peek() {
                None => break,
                Some(c) if c == ch('|') || c == ch(')') => break,
                _ => {}
            }
            terms.push(self.term()?);
        }
        Ok(match terms.len() {
            0 => Node::Empty,
            1 => terms.pop().unwrap(),
            _ => Node::Seq(terms),
        })
    }

    fn term(&mut self) -> PResult<Node> {
        let paren_index = self.groups_seen;
        let atom = self.atomish()?;
        match atom {
            Atomish::Assertion(n) => Ok(n),
            Atomish::Quantifiable(n) => {
                if let Some((min, max, greedy)) = self.quantifier()? {
                    self.feat.quantifiers += 1;
                    if !greedy {
                        self.feat.lazy_quantifiers += 1;
                    }
                    Ok(Node::Quant { body: Box::new(n), min, max, greedy, paren_index, paren_count: self.groups_seen - paren_index })
                } else {
                    Ok(n)
                }
            }
        }
    }

    /// Try to parse `{n}`, `{n,}`, `{n,m}` at the current position. Returns (min digits, max) and
    /// the position after it, without consuming.
    fn braced(&self) -> Option<(Vec<u32>, Option<Option<Vec<u32>>>, usize)> {
        let mut p = self.pos;
        if self.src.get(p) != Some(&ch('{')) {
            return None;
        }
        p += 1;
        let st = p;
        while p < self.src.len() && is_dec(self.src[p]) {
            p += 1;
        }
        if p == st {
            return None;
        }
        let min = self.src[st..p].to_vec();
        if self.src.get(p) == Some(&ch('}')) {
            return Some((min, None, p + 1));
        }
        if self.src.get(p) != Some(&ch(',')) {
            return None;
        }
        p += 1;
        let st2 = p;
        while p < self.src.len() && is_dec(self.src[p]) {
            p += 1;
        }
        let max = if p == st2 { None } else { Some(self.src[st2..p].to_vec()) };
        if self.src.get(p) != Some(&ch('}')) {
            return None;
        }
        Some((min, Some(max), p + 1))
    }

    fn quantifier(&mut self) -> PResult<Option<(u64, Option<u64>, bool)>> {
        let (min, max) = match self.peek().and_then(char::from_u32) {
            Some('*') => {
                self.pos += 1;
                (0, None)
            }
            Some('+') => {
                self.pos += 1;
                (1, None)
            }
            Some('?') => {
                self.pos += 1;
                (0, Some(1))
            }
            Some('{') => match self.braced() {
                Some((min, max, end)) => {
                    let (lo, hi) = match max {
                        None => (dec_value_sat(&min), Some(dec_value_sat(&min))),
                        Some(None) => (dec_value_sat(&min), None),
                        Some(Some(mx)) => {
                            if dec_cmp(&min, &mx) == std::cmp::Ordering::Greater {
                                return self.err("numbers out of order in {} quantifier");
                            }
                            (dec_value_sat(&min), Some(dec_value_sat(&mx)))
                        }
                    };
                    self.pos = end;
                    (lo, hi)
                }
                None => return Ok(None),
            },
            _ => return Ok(None),
        };
        let greedy = !self.eat('?');
        Ok(Some((min, max, greedy)))
    }

    fn atomish(&mut self) -> PResult<Atomish> {
        let c = self.peek().unwrap();
        let u = self.umode();
        match char::from_u32(c) {
            Some('^') => {
                self.pos += 1;
                self.feat.anchors += 1;
                Ok(Atomish::Assertion(Node::LineStart { m: self.modes.m }))
            }
            Some('$') => {
                self.pos += 1;
                self.feat.anchors += 1;
                Ok(Atomish::Assertion(Node::LineEnd { m: self.modes.m }))
            }
            Some('.') => {
                self.pos += 1;
                self.feat.dots += 1;
                Ok(Atomish::Quantifiable(Node::Dot { s: self.modes.s }))
            }
            Some('(') => self.group(),
            Some('[') => {
                let n = self.character_class()?;
                Ok(Atomish::Quantifiable(n))
            }
            Some('\\') => self.atom_escape_outer(),
            Some('*') | Some('+') | Some('?') => self.err("nothing to repeat"),
            Some('{') => {
                if u {
                    return self.err("lone quantifier bracket");
                }
                // ExtendedAtom :: InvalidBracedQuantifier is always an early error.
                if self.braced().is_some() {
                    return self.err("nothing to repeat (braced quantifier)");
                }
                self.pos += 1;
                self.feat.legacy_quirks += 1;
                Ok(Atomish::Quantifiable(Node::Char { c, i: self.modes.i }))
            }
            Some('}') | Some(']') => {
                if u {
                    return self.err("lone bracket");
                }
                self.pos += 1;
                self.feat.legacy_quirks += 1;
                Ok(Atomish::Quantifiable(Node::Char { c, i: self.modes.i }))
            }
            // ')' and '|' are handled by the callers.
            _ => {
                self.pos += 1;
                Ok(Atomish::Quantifiable(Node::Char { c, i: self.modes.i }))
            }
        }
    }

    fn group(&mut self) -> PResult<Atomish> {
        // at '('
        let u = self.umode();
        if self.looking_at("(?=") || self.looking_at("(?!") {
            let neg = self.looking_at("(?!");
            self.pos += 3;
            self.feat.lookaheads += 1;
            let body = self.disjunction()?;
            if !self.eat(')') {
                return self.err("unterminated group");
            }
            let n = Node::Look { behind: false, neg, body: Box::new(body) };
            // Annex B: QuantifiableAssertion only without UnicodeMode.
            return Ok(if u { Atomish::Assertion(n) } else { Atomish::Quantifiable(n) });
        }
        if self.looking_at("(?<=") || self.looking_at("(?<!") {
            let neg = self.looking_at("(?<!");
            self.pos += 4;
            self.feat.lookbehinds += 1;
            let body = self.disjunction()?;
            if !self.eat(')') {
                return self.err("unterminated group");
            }
            return Ok(Atomish::Assertion(Node::Look { behind: true, neg, body: Box::new(body) }));
        }
        if self.eat_str("(?:") {
            let body = self.disjunction()?;
            if !self.eat(')') {
                return self.err("unterminated group");
            }
            return Ok(Atomish::Quantifiable(wrap_group(body)));
        }
        if self.looking_at("(?<") {
            // named capturing group
            self.pos += 2;
            let name = self.group_name()?;
            self.groups_seen += 1;
            let index = self.groups_seen;
            self.feat.groups += 1;
            self.feat.named_groups += 1;
            if self.group_names.len() <= index {
                self.group_names.resize(index + 1, None);
            }
            self.group_names[index] = Some(name.clone());
            self.named.push(NamedGroupInfo { index, name: name.clone(), path: self.path.clone() });
            let body = self.disjunction()?;
            if !self.eat(')') {
                return self.err("unterminated group");
            }
            return Ok(Atomish::Quantifiable(Node::Group { index, name: Some(name), body: Box::new(body) }));
        }
        if self.looking_at("(?") {
            // modifiers: (?ims-ims:
            let save = self.pos;
            self.pos += 2;
            let mut add: Vec<char> = Vec::new();
            let mut remove: Vec<char> = Vec::new();
            let mut seen_dash = false;
            loop {
                match self.peek().and_then(char::from_u32) {
                    Some(c @ ('i' | 'm' | 's')) => {
                        self.pos += 1;
                        if seen_dash {
                            remove.push(c)
                        } else {
                            add.push(c)
                        }
                    }
                    Some('-') if !seen_dash => {
                        self.pos += 1;
                        seen_dash = true;
                    }
                    Some(':') => {
                        self.pos += 1;
                        break;
                    }
                    _ => {
                        self.pos = save;
                        return self.err("invalid group");
                    }
                }
            }
            // early errors
            let dup = |v: &Vec<char>| {
                let mut w = v.clone();
                w.sort_unstable();
                w.windows(2).any(|p| p[0] == p[1])
            };
            if dup(&add) || dup(&remove) {
                return self.err("repeated flag in modifiers");
            }
            if seen_dash && add.is_empty() && remove.is_empty() {
                return self.err("empty modifiers");
            }
            if add.iter().any(|c| remove.contains(c)) {
                return self.err("flag both added and removed");
            }
            // (add empty, no dash) is "(?:" and was handled above.
            self.feat.modifiers += 1;
            let saved = self.modes;
            for c in &add {
                match c {
                    'i' => self.modes.i = true,
                    'm' => self.modes.m = true,
                    _ => self.modes.s = true,
                }
            }
            for c in &remove {
                match c {
                    'i' => self.modes.i = false,
                    'm' => self.modes.m = false,
                    _ => self.modes.s = false,
                }
            }
            let body = self.disjunction();
            self.modes = saved;
            let body = body?;
            if !self.eat(')') {
                return self.err("unterminated group");
            }
            return Ok(Atomish::Quantifiable(wrap_group(body)));
        }
        // plain capturing group
        self.pos += 1;
        self.groups_seen += 1;
        let index = self.groups_seen;
        self.feat.groups += 1;
        if self.group_names.len() <= index {
            self.group_names.resize(index + 1, None);
        }
        let body = self.disjunction()?;
        if !self.eat(')') {
            return self.err("unterminated group");
        }
        Ok(Atomish::Quantifiable(Node::Group { index, name: None, body: Box::new(body) }))
    }

    /// GroupName :: < RegExpIdentifierName >   (positioned at '<')
    fn group_name(&mut self) -> PResult<String> {
        if !self.eat('<') {
            return self.err("expected group name");
        }
        let mut name = String::new();
        let mut first = true;
        loop {
            let Some(c) = self.peek() else { return self.err("unterminated group name") };
            if c == ch('>') {
                self.pos += 1;
                break;
            }
            let cp = if c == C_BACKSLASH {
                self.pos += 1;
                if !self.eat('u') {
                    return self.err("invalid escape in group name");
                }
                // RegExpUnicodeEscapeSequence[+UnicodeMode] regardless of flags
                match self.unicode_escape_body(true) {
                    Some(v) => v,
                    None => return self.err("invalid unicode escape in group name"),
                }
            } else {
                self.pos += 1;
                c
            };
            let ok = if first {
                cp == ch('$') || cp == ch('_') || uniref::is_id_start(cp)
            } else {
                cp == ch('$') || cp == 0x200C || cp == 0x200D || uniref::is_id_continue(cp)
            };
            if !ok {
                return self.err("invalid character in group name");
            }
            match char::from_u32(cp) {
                Some(chh) => name.push(chh),
                None => return self.err("surrogate in group name"),
            }
            first = false;
        }
        if name.is_empty() {
            return self.err("empty group name");
        }
        Ok(name)
    }

    /// After `\u`: parse the rest of a RegExpUnicodeEscapeSequence. On failure the position is
    /// restored and None returned.
    fn unicode_escape_body(&mut self, unicode_mode: bool) -> Option<u32> {
        let save = self.pos;
        // regress documents (lib.rs: "the parser assumes the u flag") and pins in its tests that
        // \u{H..} is a code point escape without the u flag as well; the reference model follows
        // that documented extension. When the braces do not hold a valid code point the legacy
        // reading (identity escape 'u') applies.
        if self.peek() == Some(ch('{')) {
            self.pos += 1;
            let mut v: u32 = 0;
            let mut n = 0;
            while let Some(h) = self.peek().and_then(hex_val) {
                self.pos += 1;
                n += 1;
                v = v.saturating_mul(16).saturating_add(h);
                if v > 0x10FFFF {
                    self.pos = save;
                    return None;
                }
            }
            if n == 0 || self.peek() != Some(ch('}')) {
                self.pos = save;
                return None;
            }
            self.pos += 1;
            return Some(v);
        }
        let hex4 = |p: &Parser, at: usize| -> Option<u32> {
            let mut v = 0;
            for k in 0..4 {
                v = v * 16 + p.src.get(at + k).copied().and_then(hex_val)?;
            }
            Some(v)
        };
        let Some(v) = hex4(self, self.pos) else {
            self.pos = save;
            return None;
        };
        self.pos += 4;
        // "Units" (DESIGN.md Appendix A): a pattern is a sequence of code points in every mode, so
        // an escaped surrogate pair denotes one supplementary code point without the u flag too.
        let _ = unicode_mode;
        if (0xD800..=0xDBFF).contains(&v) {
            // u HexLeadSurrogate \u HexTrailSurrogate
            if self.peek() == Some(C_BACKSLASH) && self.peek_at(1) == Some(ch('u')) {
                if let Some(lo) = hex4(self, self.pos + 2) {
                    if (0xDC00..=0xDFFF).contains(&lo) {
                        self.pos += 6;
                        return Some(0x10000 + ((v - 0xD800) << 10) + (lo - 0xDC00));
                    }
                }
            }
        }
        Some(v)
    }

    fn atom_escape_outer(&mut self) -> PResult<Atomish> {
        // at '\'
        let u = self.umode();
        let Some(c) = self.peek_at(1) else { return self.err("\\ at end of pattern") };
        match char::from_u32(c) {
            Some('b') | Some('B') => {
                self.pos += 2;
                self.feat.word_boundaries += 1;
                Ok(Atomish::Assertion(Node::WordBoundary { neg: c == ch('B'), i: self.modes.i }))
            }
            _ => {
                if !u && c == ch('c') && !self.peek_at(2).map(is_ascii_letter).unwrap_or(false) {
                    // ExtendedAtom :: \ [lookahead = c]
                    self.pos += 1;
                    self.feat.legacy_quirks += 1;
                    return Ok(Atomish::Quantifiable(Node::Char { c: C_BACKSLASH, i: self.modes.i }));
                }
                self.pos += 1;
                let n = self.atom_escape()?;
                Ok(Atomish::Quantifiable(n))
            }
        }
    }

    /// AtomEscape, positioned after the backslash.
    fn atom_escape(&mut self) -> PResult<Node> {
        let u = self.umode();
        let c = self.peek().unwrap();
        // DecimalEscape
        if (0x31..=0x39).contains(&c) {
            let st = self.pos;
            let mut p = self.pos;
            while p < self.src.len() && is_dec(self.src[p]) {
                p += 1;
            }
            let digits = &self.src[st..p];
            let val = dec_value_sat(digits);
            if self.lenient {
                self.pos = p;
                self.feat.backrefs += 1;
                return Ok(Node::BackRef { groups: vec![val.min(1 << 40) as usize], i: self.modes.i });
            }
            if val <= self.total_groups as u64 {
                self.pos = p;
                self.feat.backrefs += 1;
                return Ok(Node::BackRef { groups: vec![val as usize], i: self.modes.i });
            }
            if u {
                return self.err("invalid backreference");
            }
            // legacy: fall through to CharacterEscape (octal / identity)
            self.feat.legacy_quirks += 1;
        }
        // CharacterClassEscape
        if let Some(esc) = self.try_class_escape()? {
            return Ok(match esc {
                Esc::Class(e) => {
                    self.feat.class_escapes += 1;
                    Node::Class { cls: ClassNode::Escape(e), i: self.modes.i }
                }
                Esc::StringProp { name, strings } => {
                    self.feat.string_classes += 1;
                    Node::Class { cls: ClassNode::StringProp { name, strings }, i: self.modes.i }
                }
            });
        }
        // k GroupName
        if c == ch('k') {
            if self.lenient {
                let save = self.pos;
                self.pos += 1;
                if self.peek() == Some(ch('<')) {
                    if let Ok(name) = self.group_name() {
                        self.feat.named_backrefs += 1;
                        let _ = name;
                        return Ok(Node::BackRef { groups: vec![], i: self.modes.i });
                    }
                }
                if u {
                    self.pos = save;
                    return self.err("invalid named reference");
                }
                self.pos = save + 1;
                return Ok(Node::Char { c, i: self.modes.i });
            }
            if self.n_param() {
                self.pos += 1;
                if self.peek() != Some(ch('<')) {
                    return self.err("invalid named reference");
                }
                let name = self.group_name()?;
                let Some(groups) = self.names.get(&name) else { return self.err("reference to undefined group name") };
                self.feat.named_backrefs += 1;
                self.feat.backrefs += 1;
                return Ok(Node::BackRef { groups: groups.clone(), i: self.modes.i });
            }
            // [~N] identity escape
            self.pos += 1;
            self.feat.legacy_quirks += 1;
            return Ok(Node::Char { c, i: self.modes.i });
        }
        let v = self.character_escape(false)?;
        Ok(Node::Char { c: v, i: self.modes.i })
    }

    /// CharacterClassEscape (d D s S w W p{..} P{..}), positioned after the backslash.
    /// Returns None if the next character does not start one.
    fn try_class_escape(&mut self) -> PResult<Option<Esc>> {
        let c = self.peek().unwrap();
        let e = match char::from_u32(c) {
            Some('d') => ClassEscape::Digit { neg: false },
            Some('D') => ClassEscape::Digit { neg: true },
            Some('s') => ClassEscape::Space { neg: false },
            Some('S') => ClassEscape::Space { neg: true },
            Some('w') => ClassEscape::Word { neg: false },
            Some('W') => ClassEscape::Word { neg: true },
            Some('p') | Some('P') if self.umode() => {
                let neg = c == ch('P');
                self.pos += 1;
                if !self.eat('{') {
                    return self.err("invalid property escape");
                }
                let st = self.pos;
                let mut name: Option<String> = None;
                let mut buf = String::new();
                loop {
                    let Some(x) = self.peek() else { return self.err("unterminated property escape") };
                    let xc = char::from_u32(x).unwrap_or('\u{FFFD}');
                    if xc == '}' {
                        self.pos += 1;
                        break;
                    }
                    if xc == '=' && name.is_none() {
                        self.pos += 1;
                        name = Some(std::mem::take(&mut buf));
                        continue;
                    }
                    if xc.is_ascii_alphanumeric() || xc == '_' {
                        // UnicodePropertyNameCharacter excludes digits; a name with a digit is
                        // simply not in the tables, so no separate check is needed.
                        buf.push(xc);
                        self.pos += 1;
                        continue;
                    }
                    return self.err("invalid character in property escape");
                }
                let _ = st;
                self.feat.prop_escapes += 1;
                let full = match &name {
                    Some(n) => format!("{}={}", n, buf),
                    None => buf.clone(),
                };
                return match props::lookup(name.as_deref(), &buf, self.flags.v) {
                    PropLookup::Invalid => self.err("invalid property name or value"),
                    PropLookup::Set { set, exact17 } => Ok(Some(Esc::Class(ClassEscape::Prop { neg, name: full, set: Some(set), exact17 }))),
                    PropLookup::Unavailable => Ok(Some(Esc::Class(ClassEscape::Prop { neg, name: full, set: None, exact17: false }))),
                    PropLookup::Strings(strings) => {
                        if neg {
                            return self.err("negated property of strings");
                        }
                        Ok(Some(Esc::StringProp { name: full, strings }))
                    }
                };
            }
            _ => return Ok(None),
        };
        self.pos += 1;
        Ok(Some(Esc::Class(e)))
    }

    /// CharacterEscape, positioned after the backslash. `in_class` selects ClassEscape-specific
    /// legacy behaviour (handled by the caller for \b, \-, \c).
    fn character_escape(&mut self, in_class: bool) -> PResult<u32> {
        let u = self.umode();
        let c = self.peek().unwrap();
        let cc = char::from_u32(c);
        match cc {
            Some('f') => {
                self.pos += 1;
                Ok(0x0C)
            }
            Some('n') => {
                self.pos += 1;
                Ok(0x0A)
            }
            Some('r') => {
                self.pos += 1;
                Ok(0x0D)
            }
            Some('t') => {
                self.pos += 1;
                Ok(0x09)
            }
            Some('v') => {
                self.pos += 1;
                Ok(0x0B)
            }
            Some('c') => {
                if let Some(l) = self.peek_at(1) {
                    if is_ascii_letter(l) {
                        self.pos += 2;
                        return Ok(l % 32);
                    }
                }
                // In legacy mode the callers have already handled "\ [lookahead = c]".
                let _ = in_class;
                self.err("invalid control escape")
            }
            Some('0') if !self.peek_at(1).map(is_dec).unwrap_or(false) => {
                self.pos += 1;
                Ok(0)
            }
            Some('x') => {
                if let (Some(a), Some(b)) = (self.peek_at(1).and_then(hex_val), self.peek_at(2).and_then(hex_val)) {
                    self.pos += 3;
                    return Ok(a * 16 + b);
                }
                if u {
                    return self.err("invalid hex escape");
                }
                self.pos += 1;
                self.feat.legacy_quirks += 1;
                Ok(c)
            }
            Some('u') => {
                self.pos += 1;
                if let Some(v) = self.unicode_escape_body(u) {
                    return Ok(v);
                }
                if u {
                    return self.err("invalid unicode escape");
                }
                self.feat.legacy_quirks += 1;
                Ok(c)
            }
            Some('0'..='7') if !u => {
                // LegacyOctalEscapeSequence
                self.feat.legacy_quirks += 1;
                let d0 = c - 0x30;
                let n1 = self.peek_at(1);
                if d0 == 0 {
                    // '0' followed by a decimal digit (else handled above)
                    if matches!(n1, Some(0x38) | Some(0x39)) {
                        self.pos += 1;
                        return Ok(0);
                    }
                }
                match n1 {
                    Some(x) if is_oct(x) => {
                        let d1 = x - 0x30;
                        if d0 >= 4 {
                            self.pos += 2;
                            return Ok(d0 * 8 + d1);
                        }
                        match self.peek_at(2) {
                            Some(y) if is_oct(y) => {
                                self.pos += 3;
                                Ok(d0 * 64 + d1 * 8 + (y - 0x30))
                            }
                            _ => {
                                self.pos += 2;
                                Ok(d0 * 8 + d1)
                            }
                        }
                    }
                    _ => {
                        self.pos += 1;
                        Ok(d0)
                    }
                }
            }
            _ => {
                // IdentityEscape
                if u {
                    if is_syntax_char(c) || c == ch('/') {
                        self.pos += 1;
                        return Ok(c);
                    }
                    return self.err("invalid identity escape");
                }
                // SourceCharacterIdentityEscape[?N]: not 'c'; with +N also not 'k'.
                if c == ch('c') {
                    return self.err("invalid escape");
                }
                if c == ch('k') && self.n_param() {
                    return self.err("invalid escape \\k");
                }
                self.pos += 1;
                if !(is_syntax_char(c) || c == ch('/')) {
                    self.feat.legacy_quirks += 1;
                }
                Ok(c)
            }
        }
    }

    // ---------------- character classes ----------------

    fn character_class(&mut self) -> PResult<Node> {
        // at '['
        self.feat.classes += 1;
        if self.flags.v {
            self.feat.vclasses += 1;
            self.pos += 1;
            let neg = self.eat('^');
            let expr = self.class_set_expression()?;
            if neg && may_contain_strings_expr(&expr) {
                return self.err("negated class may contain strings");
            }
            if contains_strings_expr(&expr) {
                self.feat.string_classes += 1;
            }
            return Ok(Node::Class { cls: ClassNode::VClass { neg, expr }, i: self.modes.i });
        }
        self.pos += 1;
        let neg = self.eat('^');
        let mut items = Vec::new();
        loop {
            let Some(c) = self.peek() else { return self.err("unterminated character class") };
            if c == ch(']') {
                self.pos += 1;
                break;
            }
            let a = self.class_atom()?;
            // range?
            if self.peek() == Some(ch('-')) && self.peek_at(1).is_some() && self.peek_at(1) != Some(ch(']')) {
                self.pos += 1;
                let b = self.class_atom()?;
                match (&a, &b) {
                    (ClassItem::Char(x), ClassItem::Char(y)) => {
                        if x > y {
                            return self.err("range out of order in character class");
                        }
                        items.push(ClassItem::Range(*x, *y));
                    }
                    _ => {
                        if self.umode() {
                            return self.err("character class escape in range");
                        }
                        self.feat.legacy_quirks += 1;
                        items.push(a);
                        items.push(ClassItem::Char(ch('-')));
                        items.push(b);
                    }
                }
            } else {
                items.push(a);
            }
        }
        Ok(Node::Class { cls: ClassNode::Bracket { neg, items }, i: self.modes.i })
    }

    /// ClassAtom (non-v).
    fn class_atom(&mut self) -> PResult<ClassItem> {
        let Some(c) = self.peek() else { return self.err("unterminated character class") };
        if c != C_BACKSLASH {
            self.pos += 1;
            return Ok(ClassItem::Char(c));
        }
        let u = self.umode();
        let Some(e) = self.peek_at(1) else { return self.err("\\ at end of pattern") };
        match char::from_u32(e) {
            Some('b') => {
                self.pos += 2;
                return Ok(ClassItem::Char(0x08));
            }
            Some('-') if u => {
                self.pos += 2;
                return Ok(ClassItem::Char(ch('-')));
            }
            Some('c') if !u => {
                match self.peek_at(2) {
                    Some(l) if is_ascii_letter(l) => {
                        self.pos += 3;
                        return Ok(ClassItem::Char(l % 32));
                    }
                    Some(l) if is_dec(l) || l == ch('_') => {
                        self.pos += 3;
                        self.feat.legacy_quirks += 1;
                        return Ok(ClassItem::Char(l % 32));
                    }
                    _ => {
                        // ClassAtomNoDash :: \ [lookahead = c]
                        self.pos += 1;
                        self.feat.legacy_quirks += 1;
                        return Ok(ClassItem::Char(C_BACKSLASH));
                    }
                }
            }
            _ => {}
        }
        self.pos += 1;
        if let Some(esc) = self.try_class_escape()? {
            return match esc {
                Esc::Class(e) => {
                    self.feat.class_escapes += 1;
                    Ok(ClassItem::Escape(e))
                }
                Esc::StringProp { .. } => self.err("property of strings in a non-v class"),
            };
        }
        let v = self.character_escape(true)?;
        Ok(ClassItem::Char(v))
    }

    // ---- v-mode ----

    /// ClassContents, positioned after '[' and optional '^'; consumes the closing ']'.
    fn class_set_expression(&mut self) -> PResult<VExpr> {
        self.enter()?;
        let r = self.class_set_expression_inner();
        self.leave();
        r
    }

    fn class_set_expression_inner(&mut self) -> PResult<VExpr> {
        if self.eat(']') {
            return Ok(VExpr::Union(vec![]));
        }
        let first = self.class_set_operand_or_range()?;
        let is_range = matches!(first, VOperand::Range(..));
        if !is_range && self.looking_at("&&") {
            let mut ops = vec![first];
            while self.eat_str("&&") {
                if self.peek() == Some(ch('&')) {
                    return self.err("unexpected & in class intersection");
                }
                let o = self.class_set_operand()?;
                ops.push(o);
            }
            if !self.eat(']') {
                return self.err("unexpected token in class intersection");
            }
            return Ok(VExpr::Inter(ops));
        }
        if !is_range && self.looking_at("--") {
            let mut ops = vec![first];
            while self.eat_str("--") {
                let o = self.class_set_operand()?;
                ops.push(o);
            }
            if !self.eat(']') {
                return self.err("unexpected token in class subtraction");
            }
            return Ok(VExpr::Sub(ops));
        }
        let mut ops = vec![first];
        loop {
            match self.peek() {
                None => return self.err("unterminated class"),
                Some(c) if c == ch(']') => {
                    self.pos += 1;
                    break;
                }
                _ => {}
            }
            ops.push(self.class_set_operand_or_range()?);
        }
        Ok(VExpr::Union(ops))
    }

    fn class_set_operand_or_range(&mut self) -> PResult<VOperand> {
        let o = self.class_set_operand()?;
        if let VOperand::Char(a) = o {
            // ClassSetRange :: ClassSetCharacter - ClassSetCharacter
            if self.peek() == Some(ch('-')) && self.peek_at(1) != Some(ch('-')) {
                self.pos += 1;
                let b = self.class_set_character()?;
                if a > b {
                    return self.err("range out of order in class");
                }
                return Ok(VOperand::Range(a, b));
            }
        }
        Ok(o)
    }

    fn class_set_operand(&mut self) -> PResult<VOperand> {
        let Some(c) = self.peek() else { return self.err("unterminated class") };
        if c == ch('[') {
            self.pos += 1;
            let neg = self.eat('^');
            let expr = self.class_set_expression()?;
            if neg && may_contain_strings_expr(&expr) {
                return self.err("negated class may contain strings");
            }
            return Ok(VOperand::Nested { neg, expr: Box::new(expr) });
        }
        if c == C_BACKSLASH {
            let Some(e) = self.peek_at(1) else { return self.err("\\ at end of pattern") };
            if e == ch('q') {
                if self.peek_at(2) != Some(ch('{')) {
                    return self.err("invalid \\q");
                }
                self.pos += 3;
                let mut alts: Vec<Vec<u32>> = Vec::new();
                let mut cur: Vec<u32> = Vec::new();
                loop {
                    let Some(x) = self.peek() else { return self.err("unterminated \\q") };
                    if x == ch('}') {
                        self.pos += 1;
                        alts.push(cur);
                        break;
                    }
                    if x == ch('|') {
                        self.pos += 1;
                        alts.push(std::mem::take(&mut cur));
                        continue;
                    }
                    cur.push(self.class_set_character()?);
                }
                return Ok(VOperand::Strings(alts));
            }
            // \ CharacterClassEscape
            let save = self.pos;
            self.pos += 1;
            if let Some(esc) = self.try_class_escape()? {
                return Ok(match esc {
                    Esc::Class(e) => {
                        self.feat.class_escapes += 1;
                        VOperand::Escape(e)
                    }
                    Esc::StringProp { name, strings } => VOperand::StringProp { name, strings },
                });
            }
            self.pos = save;
        }
        Ok(VOperand::Char(self.class_set_character()?))
    }

    fn class_set_character(&mut self) -> PResult<u32> {
        let Some(c) = self.peek() else { return self.err("unterminated class") };
        if c == C_BACKSLASH {
            let Some(e) = self.peek_at(1) else { return self.err("\\ at end of pattern") };
            if e == ch('b') {
                self.pos += 2;
                return Ok(0x08);
            }
            if is_class_set_reserved_punct(e) {
                self.pos += 2;
                return Ok(e);
            }
            self.pos += 1;
            return self.character_escape(true);
        }
        if is_class_set_syntax_char(c) {
            return self.err("unescaped class set syntax character");
        }
        if is_double_punct_char(c) && self.peek_at(1) == Some(c) {
            return self.err("reserved double punctuator in class");
        }
        self.pos += 1;
        Ok(c)
    }
}

enum Esc {
    Class(ClassEscape),
    StringProp { name: String, strings: Option<Vec<Vec<u32>>> },
}

fn wrap_group(body: Node) -> Node {
    // A non-capturing group is transparent, but must stay one atom for a following quantifier
    // and must keep a sequence from being flattened into its parent incorrectly. Seq/Alt nesting
    // preserves that, so the body can be returned as is.
    body
}

pub fn may_contain_strings_expr(e: &VExpr) -> bool {
    match e {
        VExpr::Union(ops) => ops.iter().any(may_contain_strings_op),
        VExpr::Inter(ops) => ops.iter().all(may_contain_strings_op),
        VExpr::Sub(ops) => ops.first().map(may_contain_strings_op).unwrap_or(false),
    }
}

fn may_contain_strings_op(o: &VOperand) -> bool {
    match o {
        VOperand::Char(_) | VOperand::Range(..) | VOperand::Escape(_) => false,
        VOperand::Strings(alts) => alts.iter().any(|a| a.len() != 1),
        VOperand::StringProp { .. } => true,
        VOperand::Nested { neg, expr } => !*neg && may_contain_strings_expr(expr),
    }
}

fn contains_strings_expr(e: &VExpr) -> bool {
    let ops = match e {
        VExpr::Union(o) | VExpr::Inter(o) | VExpr::Sub(o) => o,
    };
    ops.iter().any(|o| match o {
        VOperand::Strings(_) | VOperand::StringProp { .. } => true,
        VOperand::Nested { expr, .. } => contains_strings_expr(expr),
        _ => false,
    })
}

fn might_both_participate(a: &[(usize, usize)], b: &[(usize, usize)]) -> bool {
    for (x, y) in a.iter().zip(b.iter()) {
        if x.0 != y.0 {
            // diverged into different sub-disjunctions of the same alternative
            return true;
        }
        if x.1 != y.1 {
            return false;
        }
    }
    true
}

fn run(src: &[u32], flags: Flags, lenient: bool, total_groups: usize, has_names: bool, names: HashMap<String, Vec<usize>>) -> PResult<(Parser<'_>, Node)> {
    let mut p = Parser {
        src,
        pos: 0,
        flags,
        lenient,
        total_groups,
        has_names,
        names,
        groups_seen: 0,
        modes: Modes { i: flags.i, m: flags.m, s: flags.s },
        named: Vec::new(),
        group_names: vec![None],
        path: Vec::new(),
        next_disj_id: 0,
        depth: 0,
        max_depth: 0,
        feat: Features::default(),
    };
    let node = p.disjunction()?;
    if p.pos != src.len() {
        // only ')' can stop the top-level disjunction
        return p.err("unmatched )");
    }
    Ok((p, node))
}

/// Parse `src` under `flags`. `u` and `v` together are rejected by ECMAScript itself; callers do
/// not pass both.
pub fn parse(src: &[u32], flags: Flags) -> Result<Pattern, ParseError> {
    // Pass 1: count groups and collect names.
    let (p1, _) = run(src, flags, true, 0, false, HashMap::new())?;
    let total = p1.groups_seen;
    let mut names: HashMap<String, Vec<usize>> = HashMap::new();
    for g in &p1.named {
        names.entry(g.name.clone()).or_default().push(g.index);
    }
    // Early error: duplicate names that might both participate.
    for (i, a) in p1.named.iter().enumerate() {
        for b in p1.named.iter().skip(i + 1) {
            if a.name == b.name && might_both_participate(&a.path, &b.path) {
                return Err(ParseError { msg: "duplicate group name".into(), pos: 0 });
            }
        }
    }
    let has_names = !p1.named.is_empty();
    drop(p1);
    // Pass 2: the real parse.
    let (p2, node) = run(src, flags, false, total, has_names, names)?;
    let mut group_names = p2.group_names.clone();
    group_names.resize(total + 1, None);
    Ok(Pattern { node, flags, ngroups: total, group_names, features: p2.feat.clone() })
}

/// Maximum syntactic nesting depth reached while parsing (groups + nested classes), or None if
/// the pattern does not parse. Used to stay away from regress's documented nesting limit.
pub fn nesting_depth(src: &[u32], flags: Flags) -> Option<usize> {
    run(src, flags, true, 0, false, HashMap::new()).ok().map(|(p, _)| p.max_depth)
}
