//! `esref`: an executable reference model of ECMAScript (ES2025) regular expressions, written from
//! ECMA-262 §22.2 and Annex B.1.2 — parser (legacy / `u` / `v` grammars with early errors),
//! class-set evaluator and continuation-passing backtracking matcher over code points.
//!
//! It shares no code with regress. It is deliberately simple and slow.

pub mod ast;
pub mod classes;
pub mod matcher;
pub mod parser;
pub mod props;

pub use ast::*;
pub use matcher::{exec, find_all, MatchResult, RefLimits, RefOutcome};
pub use parser::{parse, ParseError};

/// Flags relevant to the reference model.
#[derive(Clone, Copy, Debug, Default, PartialEq, Eq, Hash)]
pub struct Flags {
    pub i: bool,
    pub m: bool,
    pub s: bool,
    pub u: bool,
    pub v: bool,
    /// Not an ECMAScript flag: regress's Flags::no_opt (IR optimizer off). Ignored by the
    /// reference model; carried here so that a case's flags fully describe how it was compiled.
    pub n: bool,
}

impl Flags {
    pub fn from_str(s: &str) -> Flags {
        let mut f = Flags::default();
        for c in s.chars() {
            match c {
                'i' => f.i = true,
                'm' => f.m = true,
                's' => f.s = true,
                'u' => f.u = true,
                'v' => f.v = true,
                'N' => f.n = true,
                _ => {}
            }
        }
        f
    }
    pub fn to_string(&self) -> String {
        let mut s = String::new();
        if self.i {
            s.push('i');
        }
        if self.m {
            s.push('m');
        }
        if self.s {
            s.push('s');
        }
        if self.u {
            s.push('u');
        }
        if self.v {
            s.push('v');
        }
        if self.n {
            s.push('N');
        }
        s
    }
    /// HasEitherUnicodeFlag
    pub fn unicode_mode(&self) -> bool {
        self.u || self.v
    }
    /// All 24 valid combinations ({i,m,s} subsets × {none,u,v}).
    pub fn all() -> Vec<Flags> {
        let mut v = Vec::new();
        for bits in 0..8 {
            for uv in 0..3 {
                v.push(Flags { i: bits & 1 != 0, m: bits & 2 != 0, s: bits & 4 != 0, u: uv == 1, v: uv == 2, n: false });
            }
        }
        v
    }
}
