//! The reference matcher: a direct transcription of the continuation-passing semantics of
//! ECMA-262 §22.2.2 (CompileSubpattern / RepeatMatcher / BackreferenceMatcher / lookarounds)
//! over a slice of code points.

use super::ast::*;
use super::classes::{self, Ctx, Unsupported, VSet};
use crate::uniref::{self, case_data};
use std::cell::{Cell, RefCell};
use std::collections::{BTreeMap, HashMap};
use std::rc::Rc;

#[derive(Clone, Debug, PartialEq, Eq)]
pub struct MatchResult {
    /// Code point indices.
    pub start: usize,
    pub end: usize,
    /// One slot per capturing group (index 0 = group 1).
    pub caps: Vec<Option<(usize, usize)>>,
}

#[derive(Clone, Debug, PartialEq, Eq)]
pub enum RefOutcome {
    Match(MatchResult),
    NoMatch,
    /// The reference model ran out of its own budget (steps or recursion depth).
    Inconclusive(String),
    /// The pattern uses something the reference model has no data for.
    Unsupported(String),
}

#[derive(Clone, Copy, Debug)]
pub struct RefLimits {
    pub max_steps: u64,
    pub max_depth: usize,
}

impl Default for RefLimits {
    fn default() -> Self {
        RefLimits { max_steps: 2_000_000, max_depth: 20_000 }
    }
}

#[derive(Clone, Debug, Default)]
pub struct RefStats {
    pub steps: u64,
    pub max_depth: usize,
    pub events: BTreeMap<&'static str, u64>,
}

type Caps = Rc<Vec<Option<(usize, usize)>>>;

#[derive(Clone)]
struct State {
    end: usize,
    caps: Caps,
}

struct M<'p> {
    input: &'p [u32],
    unicode: bool,
    v: bool,
    steps: Cell<u64>,
    limits: RefLimits,
    depth: Cell<usize>,
    max_depth_seen: Cell<usize>,
    aborted: RefCell<Option<RefOutcome>>,
    vsets: RefCell<HashMap<(*const Node, bool), Rc<VSet>>>,
    events: RefCell<BTreeMap<&'static str, u64>>,
}

type K<'a> = &'a dyn Fn(&State) -> Option<State>;

impl<'p> M<'p> {
    fn ev(&self, name: &'static str) {
        *self.events.borrow_mut().entry(name).or_insert(0) += 1;
    }
    fn abort(&self, o: RefOutcome) {
        let mut a = self.aborted.borrow_mut();
        if a.is_none() {
            *a = Some(o);
        }
    }
    fn is_aborted(&self) -> bool {
        self.aborted.borrow().is_some()
    }
    fn tick(&self) -> bool {
        let s = self.steps.get() + 1;
        self.steps.set(s);
        if s > self.limits.max_steps {
            self.abort(RefOutcome::Inconclusive("reference step budget exhausted".into()));
            return false;
        }
        !self.is_aborted()
    }
    fn unsupported(&self, u: Unsupported) {
        self.abort(RefOutcome::Unsupported(u.0));
    }
    fn ctx(&self, icase: bool) -> Ctx {
        Ctx { unicode: self.unicode, v: self.v, icase }
    }
    fn canon_eq(&self, a: u32, b: u32, icase: bool) -> bool {
        if a == b {
            return true;
        }
        if !icase {
            return false;
        }
        let r = case_data().equivalent(a, b, self.unicode);
        if r && (a >= 128 || b >= 128) {
            self.ev("icase_nonascii_partner");
        }
        r
    }

    fn is_word_char(&self, idx: isize, icase: bool) -> bool {
        if idx < 0 || idx as usize >= self.input.len() {
            return false;
        }
        classes::word_characters(self.ctx(icase)).contains(self.input[idx as usize])
    }

    fn m(&self, n: &Node, x: &State, fwd: bool, k: K) -> Option<State> {
        if !self.tick() {
            return None;
        }
        let d = self.depth.get() + 1;
        if d > self.limits.max_depth {
            self.abort(RefOutcome::Inconclusive("reference recursion depth exhausted".into()));
            return None;
        }
        self.depth.set(d);
        if d > self.max_depth_seen.get() {
            self.max_depth_seen.set(d);
        }
        let r = self.m_inner(n, x, fwd, k);
        self.depth.set(d - 1);
        r
    }

    /// Consume one character in direction `fwd` if `pred` accepts it.
    fn one_char(&self, x: &State, fwd: bool, k: K, pred: &dyn Fn(u32) -> bool) -> Option<State> {
        let e = x.end;
        let len = self.input.len();
        if fwd {
            if e >= len {
                return None;
            }
        } else if e == 0 {
            return None;
        }
        let (f, index) = if fwd { (e + 1, e) } else { (e - 1, e - 1) };
        if !pred(self.input[index]) {
            return None;
        }
        k(&State { end: f, caps: x.caps.clone() })
    }

    fn m_inner(&self, n: &Node, x: &State, fwd: bool, k: K) -> Option<State> {
        match n {
            Node::Empty => k(x),
            Node::Char { c, i } => self.one_char(x, fwd, k, &|t| self.canon_eq(*c, t, *i)),
            Node::Dot { s } => self.one_char(x, fwd, k, &|t| *s || !uniref::is_line_terminator(t)),
            Node::Class { cls, i } => self.class(n, cls, *i, x, fwd, k),
            Node::LineStart { m } => {
                let e = x.end;
                if e == 0 || (*m && uniref::is_line_terminator(self.input[e - 1])) {
                    k(x)
                } else {
                    None
                }
            }
            Node::LineEnd { m } => {
                let e = x.end;
                if e == self.input.len() || (*m && uniref::is_line_terminator(self.input[e])) {
                    k(x)
                } else {
                    None
                }
            }
            Node::WordBoundary { neg, i } => {
                let e = x.end as isize;
                let a = self.is_word_char(e - 1, *i);
                let b = self.is_word_char(e, *i);
                if (a != b) != *neg {
                    k(x)
                } else {
                    None
                }
            }
            Node::Group { index, body, .. } => {
                let idx = *index;
                let xe = x.end;
                let in_look_behind = !fwd;
                self.m(body, x, fwd, &|y: &State| {
                    let ye = y.end;
                    let r = if fwd { (xe, ye) } else { (ye, xe) };
                    let mut cap = (*y.caps).clone();
                    cap[idx - 1] = Some(r);
                    if in_look_behind {
                        self.ev("capture_set_backwards");
                    }
                    k(&State { end: ye, caps: Rc::new(cap) })
                })
            }
            Node::BackRef { groups, i } => {
                let mut r = None;
                for g in groups {
                    if let Some(Some(c)) = x.caps.get(*g - 1) {
                        r = Some(*c);
                    }
                }
                let Some((rs, re)) = r else {
                    self.ev("backref_undefined_matches_empty");
                    return k(x);
                };
                let len = re - rs;
                let e = x.end;
                let f: isize = if fwd { (e + len) as isize } else { e as isize - len as isize };
                if f < 0 || f as usize > self.input.len() {
                    return None;
                }
                let f = f as usize;
                let g = e.min(f);
                for j in 0..len {
                    if !self.canon_eq(self.input[rs + j], self.input[g + j], *i) {
                        return None;
                    }
                }
                if len > 0 {
                    self.ev("backref_matched_nonempty");
                    if !fwd {
                        self.ev("backref_backwards");
                    }
                }
                k(&State { end: f, caps: x.caps.clone() })
            }
            Node::Look { behind, neg, body } => {
                let r = self.m(body, x, !*behind, &|y: &State| Some(y.clone()));
                if self.is_aborted() {
                    return None;
                }
                if *neg {
                    if r.is_some() {
                        return None;
                    }
                    k(x)
                } else {
                    let y = r?;
                    if !Rc::ptr_eq(&y.caps, &x.caps) && *y.caps != *x.caps {
                        self.ev(if *behind { "lookbehind_captured" } else { "lookahead_captured" });
                    }
                    k(&State { end: x.end, caps: y.caps })
                }
            }
            Node::Quant { body, min, max, greedy, paren_index, paren_count } => {
                self.repeat(body, *min, *max, *greedy, x, fwd, k, *paren_index, *paren_count)
            }
            Node::Seq(nodes) => self.seq(nodes, x, fwd, k),
            Node::Alt(alts) => {
                for (j, a) in alts.iter().enumerate() {
                    let r = self.m(a, x, fwd, k);
                    if r.is_some() || self.is_aborted() {
                        return r;
                    }
                    if j > 0 {
                        self.ev("alternative_backtracked");
                    }
                }
                None
            }
        }
    }

    fn seq(&self, nodes: &[Node], x: &State, fwd: bool, k: K) -> Option<State> {
        match nodes.len() {
            0 => k(x),
            1 => self.m(&nodes[0], x, fwd, k),
            _ => {
                if fwd {
                    self.m(&nodes[0], x, fwd, &|y: &State| self.seq(&nodes[1..], y, fwd, k))
                } else {
                    let last = nodes.len() - 1;
                    self.m(&nodes[last], x, fwd, &|y: &State| self.seq(&nodes[..last], y, fwd, k))
                }
            }
        }
    }

    #[allow(clippy::too_many_arguments)]
    fn repeat(&self, body: &Node, min: u64, max: Option<u64>, greedy: bool, x: &State, fwd: bool, k: K, pi: usize, pc: usize) -> Option<State> {
        if !self.tick() {
            return None;
        }
        if max == Some(0) {
            return k(x);
        }
        let d = |y: &State| -> Option<State> {
            if min == 0 && y.end == x.end {
                self.ev("empty_iteration_rejected");
                return None;
            }
            let min2 = if min == 0 { 0 } else { min - 1 };
            let max2 = max.map(|m| m - 1);
            self.repeat(body, min2, max2, greedy, y, fwd, k, pi, pc)
        };
        // reset captures pi+1 ..= pi+pc
        let xr = if pc > 0 && x.caps[pi..pi + pc].iter().any(|c| c.is_some()) {
            let mut cap = (*x.caps).clone();
            for c in cap[pi..pi + pc].iter_mut() {
                *c = None;
            }
            self.ev("capture_reset_at_iteration");
            State { end: x.end, caps: Rc::new(cap) }
        } else {
            x.clone()
        };
        if min != 0 {
            return self.m(body, &xr, fwd, &d);
        }
        if !greedy {
            let z = k(x);
            if z.is_some() || self.is_aborted() {
                return z;
            }
            self.ev("lazy_loop_extended");
            return self.m(body, &xr, fwd, &d);
        }
        let z = self.m(body, &xr, fwd, &d);
        if z.is_some() || self.is_aborted() {
            return z;
        }
        k(x)
    }

    fn vset(&self, n: &Node, cls: &ClassNode, icase: bool) -> Option<Rc<VSet>> {
        let key = (n as *const Node, icase);
        if let Some(v) = self.vsets.borrow().get(&key) {
            return Some(v.clone());
        }
        let ctx = self.ctx(icase);
        let r = match cls {
            ClassNode::Escape(e) => classes::eval_vexpr(&VExpr::Union(vec![VOperand::Escape(e.clone())]), ctx),
            other => classes::eval_vclass(other, ctx),
        };
        match r {
            Ok(v) => {
                let v = Rc::new(v);
                self.vsets.borrow_mut().insert(key, v.clone());
                Some(v)
            }
            Err(u) => {
                self.unsupported(u);
                None
            }
        }
    }

    fn class(&self, n: &Node, cls: &ClassNode, icase: bool, x: &State, fwd: bool, k: K) -> Option<State> {
        let ctx = self.ctx(icase);
        if !self.v {
            return self.one_char(x, fwd, k, &|t| match classes::nonv_matches(cls, t, ctx) {
                Ok(b) => b,
                Err(u) => {
                    self.unsupported(u);
                    false
                }
            });
        }
        let vs = self.vset(n, cls, icase)?;
        // strings with more than one character, longest first
        let mut multi: Vec<&Vec<u32>> = vs.strings.iter().filter(|s| s.len() > 1).collect();
        multi.sort_by(|a, b| b.len().cmp(&a.len()));
        let e = x.end;
        for s in multi {
            let len = s.len();
            let ok = if fwd {
                e + len <= self.input.len() && (0..len).all(|j| classes::string_char_matches(s[j], self.input[e + j], ctx))
            } else {
                e >= len && (0..len).all(|j| classes::string_char_matches(s[j], self.input[e - len + j], ctx))
            };
            if ok {
                self.ev("class_string_matched");
                let f = if fwd { e + len } else { e - len };
                let r = k(&State { end: f, caps: x.caps.clone() });
                if r.is_some() || self.is_aborted() {
                    return r;
                }
                self.ev("class_string_backtracked");
            }
        }
        let r = self.one_char(x, fwd, k, &|t| vs.cps.contains(t));
        if r.is_some() || self.is_aborted() {
            return r;
        }
        if vs.strings.iter().any(|s| s.is_empty()) {
            self.ev("class_empty_string_matched");
            return k(x);
        }
        None
    }
}

fn run_at(m: &M, pat: &Pattern, i: usize) -> Option<State> {
    let caps: Caps = Rc::new(vec![None; pat.ngroups]);
    let x = State { end: i, caps };
    m.m(&pat.node, &x, true, &|y: &State| Some(y.clone()))
}

/// RegExpBuiltinExec without sticky: the first match at or after `start` (a code point index).
pub fn exec(pat: &Pattern, input: &[u32], start: usize, limits: RefLimits) -> (RefOutcome, RefStats) {
    let m = M {
        input,
        unicode: pat.flags.unicode_mode(),
        v: pat.flags.v,
        steps: Cell::new(0),
        limits,
        depth: Cell::new(0),
        max_depth_seen: Cell::new(0),
        aborted: RefCell::new(None),
        vsets: RefCell::new(HashMap::new()),
        events: RefCell::new(BTreeMap::new()),
    };
    let mut out = RefOutcome::NoMatch;
    if start <= input.len() {
        for i in start..=input.len() {
            let r = run_at(&m, pat, i);
            if let Some(a) = m.aborted.borrow().clone() {
                out = a;
                break;
            }
            if let Some(y) = r {
                out = RefOutcome::Match(MatchResult { start: i, end: y.end, caps: (*y.caps).clone() });
                break;
            }
        }
    }
    let stats = RefStats { steps: m.steps.get(), max_depth: m.max_depth_seen.get(), events: m.events.borrow().clone() };
    (out, stats)
}

/// The match sequence defined by C09: repeatedly take the first match at or after a cursor that
/// moves to the end of a non-empty match and one character past an empty one.
pub fn find_all(pat: &Pattern, input: &[u32], start: usize, limits: RefLimits, max_matches: usize) -> (Result<Vec<MatchResult>, RefOutcome>, RefStats) {
    let mut res = Vec::new();
    let mut cursor = start;
    let mut total = RefStats::default();
    loop {
        if cursor > input.len() || res.len() >= max_matches {
            break;
        }
        let remaining = RefLimits { max_steps: limits.max_steps.saturating_sub(total.steps).max(1), ..limits };
        let (o, st) = exec(pat, input, cursor, remaining);
        total.steps += st.steps;
        total.max_depth = total.max_depth.max(st.max_depth);
        for (k, v) in st.events {
            *total.events.entry(k).or_insert(0) += v;
        }
        match o {
            RefOutcome::Match(m) => {
                cursor = if m.end == m.start { m.end + 1 } else { m.end };
                res.push(m);
            }
            RefOutcome::NoMatch => break,
            other => return (Err(other), total),
        }
    }
    (Ok(res), total)
}

/// Run `f` on a thread with a large stack (the reference matcher recurses per matched character).
pub fn with_big_stack<T: Send + 'static>(f: impl FnOnce() -> T + Send + 'static) -> T {
    std::thread::Builder::new().stack_size(1 << 30).spawn(f).expect("spawn").join().expect("reference thread panicked")
}
