//! ECMAScript property-escape name tables (ES2025 Tables 66-68, PropertyValueAliases for
//! General_Category and Script as of Unicode 17), embedded from the specification text, and the
//! lookup used by the reference parser / matcher.

use crate::rangeset::RangeSet;
use crate::uniref::{self, PropLookup};

/// (canonical name, aliases) of the binary properties ECMAScript admits (Table 67).
pub const BINARY: &[(&str, &[&str])] = &[
    ("ASCII", &[]),
    ("ASCII_Hex_Digit", &["AHex"]),
    ("Alphabetic", &["Alpha"]),
    ("Any", &[]),
    ("Assigned", &[]),
    ("Bidi_Control", &["Bidi_C"]),
    ("Bidi_Mirrored", &["Bidi_M"]),
    ("Case_Ignorable", &["CI"]),
    ("Cased", &[]),
    ("Changes_When_Casefolded", &["CWCF"]),
    ("Changes_When_Casemapped", &["CWCM"]),
    ("Changes_When_Lowercased", &["CWL"]),
    ("Changes_When_NFKC_Casefolded", &["CWKCF"]),
    ("Changes_When_Titlecased", &["CWT"]),
    ("Changes_When_Uppercased", &["CWU"]),
    ("Dash", &[]),
    ("Default_Ignorable_Code_Point", &["DI"]),
    ("Deprecated", &["Dep"]),
    ("Diacritic", &["Dia"]),
    ("Emoji", &[]),
    ("Emoji_Component", &["EComp"]),
    ("Emoji_Modifier", &["EMod"]),
    ("Emoji_Modifier_Base", &["EBase"]),
    ("Emoji_Presentation", &["EPres"]),
    ("Extended_Pictographic", &["ExtPict"]),
    ("Extender", &["Ext"]),
    ("Grapheme_Base", &["Gr_Base"]),
    ("Grapheme_Extend", &["Gr_Ext"]),
    ("Hex_Digit", &["Hex"]),
    ("IDS_Binary_Operator", &["IDSB"]),
    ("IDS_Trinary_Operator", &["IDST"]),
    ("ID_Continue", &["IDC"]),
    ("ID_Start", &["IDS"]),
    ("Ideographic", &["Ideo"]),
    ("Join_Control", &["Join_C"]),
    ("Logical_Order_Exception", &["LOE"]),
    ("Lowercase", &["Lower"]),
    ("Math", &[]),
    ("Noncharacter_Code_Point", &["NChar"]),
    ("Pattern_Syntax", &["Pat_Syn"]),
    ("Pattern_White_Space", &["Pat_WS"]),
    ("Quotation_Mark", &["QMark"]),
    ("Radical", &[]),
    ("Regional_Indicator", &["RI"]),
    ("Sentence_Terminal", &["STerm"]),
    ("Soft_Dotted", &["SD"]),
    ("Terminal_Punctuation", &["Term"]),
    ("Unified_Ideograph", &["UIdeo"]),
    ("Uppercase", &["Upper"]),
    ("Variation_Selector", &["VS"]),
    ("White_Space", &["space"]),
    ("XID_Continue", &["XIDC"]),
    ("XID_Start", &["XIDS"]),
];

/// General_Category values: (long name, other spellings). The first alias is the short name.
pub const GENERAL_CATEGORY: &[(&str, &[&str])] = &[
    ("Other", &["C"]),
    ("Control", &["Cc", "cntrl"]),
    ("Format", &["Cf"]),
    ("Unassigned", &["Cn"]),
    ("Private_Use", &["Co"]),
    ("Surrogate", &["Cs"]),
    ("Letter", &["L"]),
    ("Cased_Letter", &["LC"]),
    ("Lowercase_Letter", &["Ll"]),
    ("Modifier_Letter", &["Lm"]),
    ("Other_Letter", &["Lo"]),
    ("Titlecase_Letter", &["Lt"]),
    ("Uppercase_Letter", &["Lu"]),
    ("Mark", &["M", "Combining_Mark"]),
    ("Spacing_Mark", &["Mc"]),
    ("Enclosing_Mark", &["Me"]),
    ("Nonspacing_Mark", &["Mn"]),
    ("Number", &["N"]),
    ("Decimal_Number", &["Nd", "digit"]),
    ("Letter_Number", &["Nl"]),
    ("Other_Number", &["No"]),
    ("Punctuation", &["P", "punct"]),
    ("Connector_Punctuation", &["Pc"]),
    ("Dash_Punctuation", &["Pd"]),
    ("Close_Punctuation", &["Pe"]),
    ("Final_Punctuation", &["Pf"]),
    ("Initial_Punctuation", &["Pi"]),
    ("Other_Punctuation", &["Po"]),
    ("Open_Punctuation", &["Ps"]),
    ("Symbol", &["S"]),
    ("Currency_Symbol", &["Sc"]),
    ("Modifier_Symbol", &["Sk"]),
    ("Math_Symbol", &["Sm"]),
    ("Other_Symbol", &["So"]),
    ("Separator", &["Z"]),
    ("Line_Separator", &["Zl"]),
    ("Paragraph_Separator", &["Zp"]),
    ("Space_Separator", &["Zs"]),
];

/// The leaf (two-letter) categories, which partition the code space.
pub const GC_LEAVES: &[&str] = &[
    "Cc", "Cf", "Cn", "Co", "Cs", "Ll", "Lm", "Lo", "Lt", "Lu", "Mc", "Me", "Mn", "Nd", "Nl", "No", "Pc", "Pd", "Pe", "Pf", "Pi", "Po",
    "Ps", "Sc", "Sk", "Sm", "So", "Zl", "Zp", "Zs",
];

/// Grouped categories and their leaves.
pub const GC_GROUPS: &[(&str, &[&str])] = &[
    ("C", &["Cc", "Cf", "Cn", "Co", "Cs"]),
    ("L", &["Ll", "Lm", "Lo", "Lt", "Lu"]),
    ("LC", &["Ll", "Lt", "Lu"]),
    ("M", &["Mc", "Me", "Mn"]),
    ("N", &["Nd", "Nl", "No"]),
    ("P", &["Pc", "Pd", "Pe", "Pf", "Pi", "Po", "Ps"]),
    ("S", &["Sc", "Sk", "Sm", "So"]),
    ("Z", &["Zl", "Zp", "Zs"]),
];

/// Script values: (long name, aliases, Unicode version that introduced the script if > 15).
pub const SCRIPTS: &[(&str, &[&str], u8)] = &[
    ("Adlam", &["Adlm"], 0),
    ("Caucasian_Albanian", &["Aghb"], 0),
    ("Ahom", &["Ahom"], 0),
    ("Arabic", &["Arab"], 0),
    ("Imperial_Aramaic", &["Armi"], 0),
    ("Armenian", &["Armn"], 0),
    ("Avestan", &["Avst"], 0),
    ("Balinese", &["Bali"], 0),
    ("Bamum", &["Bamu"], 0),
    ("Bassa_Vah", &["Bass"], 0),
    ("Batak", &["Batk"], 0),
    ("Bengali", &["Beng"], 0),
    ("Beria_Erfe", &["Berf"], 17),
    ("Bhaiksuki", &["Bhks"], 0),
    ("Bopomofo", &["Bopo"], 0),
    ("Brahmi", &["Brah"], 0),
    ("Braille", &["Brai"], 0),
    ("Buginese", &["Bugi"], 0),
    ("Buhid", &["Buhd"], 0),
    ("Chakma", &["Cakm"], 0),
    ("Canadian_Aboriginal", &["Cans"], 0),
    ("Carian", &["Cari"], 0),
    ("Cham", &["Cham"], 0),
    ("Cherokee", &["Cher"], 0),
    ("Chorasmian", &["Chrs"], 0),
    ("Coptic", &["Copt", "Qaac"], 0),
    ("Cypro_Minoan", &["Cpmn"], 0),
    ("Cypriot", &["Cprt"], 0),
    ("Cyrillic", &["Cyrl"], 0),
    ("Devanagari", &["Deva"], 0),
    ("Dives_Akuru", &["Diak"], 0),
    ("Dogra", &["Dogr"], 0),
    ("Deseret", &["Dsrt"], 0),
    ("Duployan", &["Dupl"], 0),
    ("Egyptian_Hieroglyphs", &["Egyp"], 0),
    ("Elbasan", &["Elba"], 0),
    ("Elymaic", &["Elym"], 0),
    ("Ethiopic", &["Ethi"], 0),
    ("Garay", &["Gara"], 16),
    ("Georgian", &["Geor"], 0),
    ("Glagolitic", &["Glag"], 0),
    ("Gunjala_Gondi", &["Gong"], 0),
    ("Masaram_Gondi", &["Gonm"], 0),
    ("Gothic", &["Goth"], 0),
    ("Grantha", &["Gran"], 0),
    ("Greek", &["Grek"], 0),
    ("Gujarati", &["Gujr"], 0),
    ("Gurung_Khema", &["Gukh"], 16),
    ("Gurmukhi", &["Guru"], 0),
    ("Hangul", &["Hang"], 0),
    ("Han", &["Hani"], 0),
    ("Hanunoo", &["Hano"], 0),
    ("Hatran", &["Hatr"], 0),
    ("Hebrew", &["Hebr"], 0),
    ("Hiragana", &["Hira"], 0),
    ("Anatolian_Hieroglyphs", &["Hluw"], 0),
    ("Pahawh_Hmong", &["Hmng"], 0),
    ("Nyiakeng_Puachue_Hmong", &["Hmnp"], 0),
    // Katakana_Or_Hiragana (Hrkt) is listed in PropertyValueAliases.txt but no code point has it
    // as its Script; engines and the generated test suites differ on whether it is admitted, so
    // the reference model does not claim it either way (it is simply not generated or compared).
    ("Old_Hungarian", &["Hung"], 0),
    ("Old_Italic", &["Ital"], 0),
    ("Javanese", &["Java"], 0),
    ("Kayah_Li", &["Kali"], 0),
    ("Katakana", &["Kana"], 0),
    ("Kawi", &["Kawi"], 0),
    ("Kharoshthi", &["Khar"], 0),
    ("Khmer", &["Khmr"], 0),
    ("Khojki", &["Khoj"], 0),
    ("Khitan_Small_Script", &["Kits"], 0),
    ("Kannada", &["Knda"], 0),
    ("Kirat_Rai", &["Krai"], 16),
    ("Kaithi", &["Kthi"], 0),
    ("Tai_Tham", &["Lana"], 0),
    ("Lao", &["Laoo"], 0),
    ("Latin", &["Latn"], 0),
    ("Lepcha", &["Lepc"], 0),
    ("Limbu", &["Limb"], 0),
    ("Linear_A", &["Lina"], 0),
    ("Linear_B", &["Linb"], 0),
    ("Lisu", &["Lisu"], 0),
    ("Lycian", &["Lyci"], 0),
    ("Lydian", &["Lydi"], 0),
    ("Mahajani", &["Mahj"], 0),
    ("Makasar", &["Maka"], 0),
    ("Mandaic", &["Mand"], 0),
    ("Manichaean", &["Mani"], 0),
    ("Marchen", &["Marc"], 0),
    ("Medefaidrin", &["Medf"], 0),
    ("Mende_Kikakui", &["Mend"], 0),
    ("Meroitic_Cursive", &["Merc"], 0),
    ("Meroitic_Hieroglyphs", &["Mero"], 0),
    ("Malayalam", &["Mlym"], 0),
    ("Modi", &["Modi"], 0),
    ("Mongolian", &["Mong"], 0),
    ("Mro", &["Mroo"], 0),
    ("Meetei_Mayek", &["Mtei"], 0),
    ("Multani", &["Mult"], 0),
    ("Myanmar", &["Mymr"], 0),
    ("Nag_Mundari", &["Nagm"], 0),
    ("Nandinagari", &["Nand"], 0),
    ("Old_North_Arabian", &["Narb"], 0),
    ("Nabataean", &["Nbat"], 0),
    ("Newa", &["Newa"], 0),
    ("Nko", &["Nkoo"], 0),
    ("Nushu", &["Nshu"], 0),
    ("Ogham", &["Ogam"], 0),
    ("Ol_Chiki", &["Olck"], 0),
    ("Ol_Onal", &["Onao"], 16),
    ("Old_Turkic", &["Orkh"], 0),
    ("Oriya", &["Orya"], 0),
    ("Osage", &["Osge"], 0),
    ("Osmanya", &["Osma"], 0),
    ("Old_Uyghur", &["Ougr"], 0),
    ("Palmyrene", &["Palm"], 0),
    ("Pau_Cin_Hau", &["Pauc"], 0),
    ("Old_Permic", &["Perm"], 0),
    ("Phags_Pa", &["Phag"], 0),
    ("Inscriptional_Pahlavi", &["Phli"], 0),
    ("Psalter_Pahlavi", &["Phlp"], 0),
    ("Phoenician", &["Phnx"], 0),
    ("Miao", &["Plrd"], 0),
    ("Inscriptional_Parthian", &["Prti"], 0),
    ("Rejang", &["Rjng"], 0),
    ("Hanifi_Rohingya", &["Rohg"], 0),
    ("Runic", &["Runr"], 0),
    ("Samaritan", &["Samr"], 0),
    ("Old_South_Arabian", &["Sarb"], 0),
    ("Saurashtra", &["Saur"], 0),
    ("SignWriting", &["Sgnw"], 0),
    ("Shavian", &["Shaw"], 0),
    ("Sharada", &["Shrd"], 0),
    ("Siddham", &["Sidd"], 0),
    ("Sidetic", &["Sidt"], 17),
    ("Khudawadi", &["Sind"], 0),
    ("Sinhala", &["Sinh"], 0),
    ("Sogdian", &["Sogd"], 0),
    ("Old_Sogdian", &["Sogo"], 0),
    ("Sora_Sompeng", &["Sora"], 0),
    ("Soyombo", &["Soyo"], 0),
    ("Sundanese", &["Sund"], 0),
    ("Sunuwar", &["Sunu"], 16),
    ("Syloti_Nagri", &["Sylo"], 0),
    ("Syriac", &["Syrc"], 0),
    ("Tagbanwa", &["Tagb"], 0),
    ("Takri", &["Takr"], 0),
    ("Tai_Le", &["Tale"], 0),
    ("New_Tai_Lue", &["Talu"], 0),
    ("Tamil", &["Taml"], 0),
    ("Tangut", &["Tang"], 0),
    ("Tai_Viet", &["Tavt"], 0),
    ("Tai_Yo", &["Tayo"], 17),
    ("Telugu", &["Telu"], 0),
    ("Tifinagh", &["Tfng"], 0),
    ("Tagalog", &["Tglg"], 0),
    ("Thaana", &["Thaa"], 0),
    ("Thai", &["Thai"], 0),
    ("Tibetan", &["Tibt"], 0),
    ("Tirhuta", &["Tirh"], 0),
    ("Tangsa", &["Tnsa"], 0),
    ("Todhri", &["Todr"], 16),
    ("Tolong_Siki", &["Tols"], 17),
    ("Toto", &["Toto"], 0),
    ("Tulu_Tigalari", &["Tutg"], 16),
    ("Ugaritic", &["Ugar"], 0),
    ("Vai", &["Vaii"], 0),
    ("Vithkuqi", &["Vith"], 0),
    ("Warang_Citi", &["Wara"], 0),
    ("Wancho", &["Wcho"], 0),
    ("Old_Persian", &["Xpeo"], 0),
    ("Cuneiform", &["Xsux"], 0),
    ("Yezidi", &["Yezi"], 0),
    ("Yi", &["Yiii"], 0),
    ("Zanabazar_Square", &["Zanb"], 0),
    ("Inherited", &["Zinh", "Qaai"], 0),
    ("Common", &["Zyyy"], 0),
    ("Unknown", &["Zzzz"], 0),
];

pub const STRING_PROPS: &[&str] = &uniref::STRING_PROPERTIES;

#[derive(Clone, Copy, Debug, PartialEq, Eq)]
pub enum PropName {
    Gc,
    Sc,
    Scx,
}

pub fn prop_name(s: &str) -> Option<PropName> {
    match s {
        "General_Category" | "gc" => Some(PropName::Gc),
        "Script" | "sc" => Some(PropName::Sc),
        "Script_Extensions" | "scx" => Some(PropName::Scx),
        _ => None,
    }
}

pub fn gc_canonical(v: &str) -> Option<&'static str> {
    GENERAL_CATEGORY.iter().find(|(l, a)| *l == v || a.contains(&v)).map(|(l, _)| *l)
}
pub fn gc_short(long: &str) -> &'static str {
    GENERAL_CATEGORY.iter().find(|(l, _)| *l == long).map(|(_, a)| a[0]).unwrap_or("")
}
pub fn script_canonical(v: &str) -> Option<(&'static str, u8)> {
    SCRIPTS.iter().find(|(l, a, _)| *l == v || a.contains(&v)).map(|(l, _, ver)| (*l, *ver))
}
pub fn binary_canonical(v: &str) -> Option<&'static str> {
    BINARY.iter().find(|(l, a)| *l == v || a.contains(&v)).map(|(l, _)| *l)
}

fn std_set(f: impl Fn(char) -> bool) -> RangeSet {
    let mut v = Vec::new();
    let mut start: Option<u32> = None;
    for c in 0..=crate::rangeset::MAX_CP + 1 {
        let on = c <= crate::rangeset::MAX_CP && char::from_u32(c).map(|ch| f(ch)).unwrap_or(false);
        match (on, start) {
            (true, None) => start = Some(c),
            (false, Some(s)) => {
                v.push((s, c - 1));
                start = None;
            }
            _ => {}
        }
    }
    RangeSet::from_ranges(v)
}

/// Sets with an exact Unicode 17 source on this machine (std 17 or closed form / immutable).
pub fn exact17_binary(canon: &str) -> Option<RangeSet> {
    Some(match canon {
        "ASCII" => RangeSet::from_range(0, 0x7F),
        "Any" => RangeSet::all(),
        "Alphabetic" => std_set(|c| c.is_alphabetic()),
        "Lowercase" => std_set(|c| c.is_lowercase()),
        "Uppercase" => std_set(|c| c.is_uppercase()),
        "White_Space" => std_set(|c| c.is_whitespace()),
        // Immutable by the Unicode stability policy (or closed and full): 16.0 == 17.0.
        "ASCII_Hex_Digit" | "Hex_Digit" | "Noncharacter_Code_Point" | "Pattern_Syntax" | "Pattern_White_Space" | "Join_Control"
        | "Regional_Indicator" | "Bidi_Control" | "Variation_Selector" | "Logical_Order_Exception" | "IDS_Binary_Operator"
        | "IDS_Trinary_Operator" | "Radical" => uniref::rs16_class(&format!(r"\p{{{}}}", canon))?,
        _ => return None,
    })
}

pub fn exact17_gc(short: &str) -> Option<RangeSet> {
    Some(match short {
        "Cs" => RangeSet::from_range(0xD800, 0xDFFF),
        "Co" => RangeSet::from_ranges([(0xE000, 0xF8FF), (0xF0000, 0xFFFFD), (0x100000, 0x10FFFD)]),
        "Zl" => RangeSet::single(0x2028),
        "Zp" => RangeSet::single(0x2029),
        "Cc" => RangeSet::from_ranges([(0, 0x1F), (0x7F, 0x9F)]),
        _ => return None,
    })
}

/// Look a property escape body up. `name` is the part before `=` if present.
pub fn lookup(name: Option<&str>, value: &str, v_mode: bool) -> PropLookup {
    match name {
        Some(n) => {
            let Some(pn) = prop_name(n) else { return PropLookup::Invalid };
            match pn {
                PropName::Gc => match gc_canonical(value) {
                    Some(long) => gc_set(long),
                    None => PropLookup::Invalid,
                },
                PropName::Sc | PropName::Scx => match script_canonical(value) {
                    Some((long, ver)) => script_set(long, ver, pn == PropName::Scx),
                    None => PropLookup::Invalid,
                },
            }
        }
        None => {
            if let Some(long) = gc_canonical(value) {
                return gc_set(long);
            }
            if let Some(canon) = binary_canonical(value) {
                return binary_set(canon);
            }
            if v_mode && STRING_PROPS.contains(&value) {
                return PropLookup::Strings(if value == "Emoji_Keycap_Sequence" { Some(uniref::keycap_sequences()) } else { None });
            }
            PropLookup::Invalid
        }
    }
}

fn gc_set(long: &str) -> PropLookup {
    let short = gc_short(long);
    if let Some(s) = exact17_gc(short) {
        return PropLookup::Set { set: s, exact17: true };
    }
    match uniref::rs16_class(&format!(r"\p{{gc={}}}", long)) {
        Some(s) => PropLookup::Set { set: s, exact17: false },
        None => PropLookup::Unavailable,
    }
}

fn script_set(long: &str, ver: u8, scx: bool) -> PropLookup {
    if ver >= 17 {
        return PropLookup::Unavailable;
    }
    if long == "Unknown" {
        // regex-syntax has no Zzzz; Unknown = unassigned + private use + surrogates.
        return match uniref::rs16_class(r"[\p{Cn}\p{Co}\p{Cs}]") {
            Some(s) => PropLookup::Set { set: s, exact17: false },
            None => PropLookup::Unavailable,
        };
    }
    if long == "Katakana_Or_Hiragana" {
        // No code point has sc=Hrkt; scx never contains Hrkt either.
        return PropLookup::Set { set: RangeSet::new(), exact17: true };
    }
    let pat = if scx { format!(r"\p{{scx={}}}", long) } else { format!(r"\p{{sc={}}}", long) };
    match uniref::rs16_class(&pat) {
        Some(s) => PropLookup::Set { set: s, exact17: false },
        None => PropLookup::Unavailable,
    }
}

fn binary_set(canon: &str) -> PropLookup {
    if let Some(s) = exact17_binary(canon) {
        return PropLookup::Set { set: s, exact17: true };
    }
    if canon == "Assigned" {
        return match uniref::rs16_class(r"\P{Cn}") {
            Some(s) => PropLookup::Set { set: s, exact17: false },
            None => PropLookup::Unavailable,
        };
    }
    match uniref::rs16_class(&format!(r"\p{{{}}}", canon)) {
        Some(s) => PropLookup::Set { set: s, exact17: false },
        None => PropLookup::Unavailable,
    }
}
