//! Workload generators: structured random patterns (G-struct), exhaustive small-scope pattern
//! enumeration (G-enum), and haystacks over a pattern's relevant alphabet.

use crate::esref::Flags;
use crate::rng::Rng;

// ------------------------------------------------------------------------------------------
// Case partners without touching uniref (usable under Miri): std mappings plus the well-known
// multi-member folding classes.

pub const SPECIAL_CLASSES: &[&[u32]] = &[
    &[0x4B, 0x6B, 0x212A],          // K k KELVIN
    &[0x53, 0x73, 0x17F],           // S s LONG S
    &[0xB5, 0x39C, 0x3BC],          // MICRO, MU
    &[0xC5, 0xE5, 0x212B],          // A-ring, ANGSTROM
    &[0xDF, 0x1E9E],                // sharp s
    &[0x3A3, 0x3C2, 0x3C3],         // sigma
    &[0x398, 0x3B8, 0x3D1, 0x3F4],  // theta
    &[0x1C4, 0x1C5, 0x1C6],         // DZ with caron digraph
    &[0x49, 0x69, 0x130, 0x131],    // I i, dotted / dotless (not all equivalent; probes)
    &[0x1F80, 0x1F88],              // alpha with psili and ypogegrammeni
    &[0x13A0, 0xAB70],              // Cherokee
    &[0x10400, 0x10428],            // Deseret
    &[0x1E900, 0x1E922],            // Adlam
    &[0x345, 0x399, 0x3B9, 0x1FBE], // ypogegrammeni / iota
    &[0x3A9, 0x3C9, 0x2126],        // omega / OHM
    &[0x1E60, 0x1E61, 0x1E9B],      // S with dot above, long s with dot
];

pub fn partners(c: u32) -> Vec<u32> {
    let mut v = vec![c];
    if let Some(ch) = char::from_u32(c) {
        for x in ch.to_uppercase() {
            v.push(x as u32);
        }
        for x in ch.to_lowercase() {
            v.push(x as u32);
        }
    }
    for cls in SPECIAL_CLASSES {
        if cls.contains(&c) {
            v.extend_from_slice(cls);
        }
    }
    // ASCII characters differing only in bit 5 (the ASCII "case bit"): @ and `, [ and {, \ and |,
    // ] and }, ^ and ~, _ and DEL are not case partners, but bit tricks may treat them so.
    if (0x40..=0x7F).contains(&c) {
        v.push(c ^ 0x20);
    }
    v.sort_unstable();
    v.dedup();
    v
}

// ------------------------------------------------------------------------------------------
// G-struct

#[derive(Clone, Debug)]
pub struct GenCfg {
    pub flags: Flags,
    pub max_depth: usize,
    /// Literal characters to draw from.
    pub alphabet: Vec<u32>,
    pub backrefs: bool,
    pub lookahead: bool,
    pub lookbehind: bool,
    pub named: bool,
    pub modifiers: bool,
    pub props: bool,
    pub classes: bool,
    pub vsets: bool,
    pub strings: bool,
    pub anchors: bool,
    pub long_literals: bool,
    pub big_counts: bool,
    pub legacy_quirks: bool,
}

impl GenCfg {
    pub fn new(flags: Flags, alphabet: Vec<u32>) -> GenCfg {
        GenCfg {
            flags,
            max_depth: 4,
            alphabet,
            backrefs: true,
            lookahead: true,
            lookbehind: true,
            named: true,
            modifiers: true,
            props: false,
            classes: true,
            vsets: flags.v,
            strings: flags.v,
            anchors: true,
            long_literals: true,
            big_counts: false,
            legacy_quirks: false,
        }
    }
}

#[derive(Clone, Debug)]
pub enum T {
    Lit(u32),
    Raw(String),
    Dot,
    Class(String),
    Seq(Vec<T>),
    Alt(Vec<T>),
    Cap(Box<T>),
    Named(String, Box<T>),
    NonCap(Box<T>),
    Mods(String, Box<T>),
    Look { behind: bool, neg: bool, body: Box<T> },
    BackRef(usize),
    NamedRef(String),
    Quant(Box<T>, String),
}

pub struct GenOut {
    pub pattern: String,
    pub mentioned: Vec<u32>,
}

pub const QUANTS: &[&str] = &["*", "+", "?", "{0}", "{1}", "{2}", "{0,1}", "{1,2}", "{2,}", "{1,3}", "{0,2}", "{2,3}", "{3}"];

const PROP_NAMES: &[&str] = &["Lu", "Ll", "L", "Alphabetic", "Lowercase", "Uppercase", "ASCII", "Any", "Nd", "sc=Greek", "scx=Latin", "White_Space", "ASCII_Hex_Digit", "P"];

pub struct Gen<'a> {
    pub rng: &'a mut Rng,
    pub cfg: &'a GenCfg,
    mentioned: Vec<u32>,
    groups: usize,
    names: Vec<String>,
}

fn needs_escape(c: u32) -> bool {
    matches!(char::from_u32(c), Some('^' | '$' | '\\' | '.' | '*' | '+' | '?' | '(' | ')' | '[' | ']' | '{' | '}' | '|' | '/'))
}

pub fn push_lit(out: &mut String, c: u32) {
    match char::from_u32(c) {
        Some(ch) if needs_escape(c) => {
            out.push('\\');
            out.push(ch);
        }
        Some('\n') => out.push_str("\\n"),
        Some('\r') => out.push_str("\\r"),
        Some(ch) => out.push(ch),
        None => out.push_str(&format!("\\u{:04X}", c)),
    }
}

fn push_class_lit(out: &mut String, c: u32, v: bool) {
    match char::from_u32(c) {
        Some(ch) if matches!(ch, '\\' | ']' | '[' | '^' | '-') => {
            out.push('\\');
            out.push(ch);
        }
        Some(ch) if v && matches!(ch, '(' | ')' | '{' | '}' | '/' | '|' | '&' | '!' | '#' | '%' | ',' | ':' | ';' | '<' | '=' | '>' | '@' | '`' | '~' | '$' | '*' | '+' | '.' | '?') => {
            if matches!(ch, '$' | '*' | '+' | '.' | '?' | '(' | ')' | '{' | '}' | '/' | '|') {
                out.push('\\');
                out.push(ch);
            } else {
                out.push('\\');
                out.push(ch);
            }
        }
        Some('\n') => out.push_str("\\n"),
        Some('\r') => out.push_str("\\r"),
        Some(ch) => out.push(ch),
        None => out.push_str(&format!("\\u{:04X}", c)),
    }
}

impl<'a> Gen<'a> {
    pub fn new(rng: &'a mut Rng, cfg: &'a GenCfg) -> Gen<'a> {
        Gen { rng, cfg, mentioned: Vec::new(), groups: 0, names: Vec::new() }
    }

    fn lit(&mut self) -> u32 {
        let c = *self.rng.pick(&self.cfg.alphabet);
        self.mentioned.push(c);
        c
    }

    fn class_body(&mut self, depth: usize) -> String {
        let v = self.cfg.flags.v;
        let umode = self.cfg.flags.unicode_mode();
        let mut s = String::new();
        let n = self.rng.range(0, 3);
        for _ in 0..n {
            match self.rng.weighted(&[6, 3, 2, if self.cfg.props && umode { 2 } else { 0 }, if v && self.cfg.vsets && depth < 2 { 3 } else { 0 }, if v && self.cfg.strings { 2 } else { 0 }]) {
                0 => {
                    let c = self.lit();
                    push_class_lit(&mut s, c, v);
                }
                1 => {
                    let a = self.lit();
                    let b = self.lit();
                    let (lo, hi) = if a <= b { (a, b) } else { (b, a) };
                    if hi - lo <= 0x800 {
                        push_class_lit(&mut s, lo, v);
                        s.push('-');
                        push_class_lit(&mut s, hi, v);
                    } else {
                        push_class_lit(&mut s, a, v);
                    }
                }
                2 => s.push_str(*self.rng.pick(&["\\d", "\\w", "\\s", "\\D", "\\W", "\\S"])),
                3 => {
                    let p = *self.rng.pick(PROP_NAMES);
                    s.push_str(&format!("\\{}{{{}}}", if self.rng.chance(1, 3) { 'P' } else { 'p' }, p));
                }
                4 => {
                    let neg = self.rng.chance(1, 4);
                    let inner = self.vclass_expr(depth + 1, neg);
                    s.push('[');
                    if neg {
                        s.push('^');
                    }
                    s.push_str(&inner);
                    s.push(']');
                }
                _ => {
                    s.push_str("\\q{");
                    let k = self.rng.range(1, 3);
                    for j in 0..k {
                        if j > 0 {
                            s.push('|');
                        }
                        let len = self.rng.range(0, 3);
                        for _ in 0..len {
                            let c = self.lit();
                            push_class_lit(&mut s, c, true);
                        }
                    }
                    s.push('}');
                }
            }
        }
        s
    }

    /// v-mode class contents (without the brackets).
    fn vclass_expr(&mut self, depth: usize, negated: bool) -> String {
        let saved_strings = self.cfg.strings;
        let _ = saved_strings;
        match self.rng.weighted(&[6, if depth < 3 { 2 } else { 0 }, if depth < 3 { 2 } else { 0 }]) {
            0 => {
                if negated {
                    // avoid strings under negation most of the time (would be an early error)
                    let mut s = String::new();
                    let n = self.rng.range(0, 3);
                    for _ in 0..n {
                        let c = self.lit();
                        push_class_lit(&mut s, c, true);
                    }
                    if self.rng.chance(1, 3) {
                        s.push_str(*self.rng.pick(&["\\d", "\\w", "\\W", "\\s"]));
                    }
                    s
                } else {
                    self.class_body(depth)
                }
            }
            k => {
                let op = if k == 1 { "&&" } else { "--" };
                let n = self.rng.range(2, 3);
                let mut s = String::new();
                for j in 0..n {
                    if j > 0 {
                        s.push_str(op);
                    }
                    s.push_str(&self.voperand(depth + 1));
                }
                s
            }
        }
    }

    fn voperand(&mut self, depth: usize) -> String {
        match self.rng.weighted(&[3, 4, 2, if self.cfg.strings { 2 } else { 0 }]) {
            0 => {
                let mut s = String::new();
                let c = self.lit();
                push_class_lit(&mut s, c, true);
                s
            }
            1 => {
                let neg = self.rng.chance(1, 4);
                let inner = self.vclass_expr(depth + 1, neg);
                format!("[{}{}]", if neg { "^" } else { "" }, inner)
            }
            2 => self.rng.pick(&["\\d", "\\w", "\\s", "\\D", "\\W", "\\S"]).to_string(),
            _ => {
                let mut s = String::from("\\q{");
                let k = self.rng.range(1, 3);
                for j in 0..k {
                    if j > 0 {
                        s.push('|');
                    }
                    let len = self.rng.range(0, 2);
                    for _ in 0..len {
                        let c = self.lit();
                        push_class_lit(&mut s, c, true);
                    }
                }
                s.push('}');
                s
            }
        }
    }

    fn atom(&mut self, depth: usize, in_lookbehind: bool) -> T {
        let cfg = self.cfg;
        let deep = depth >= cfg.max_depth;
        let umode = cfg.flags.unicode_mode();
        let w = [
            30,                                                   // 0 literal
            6,                                                    // 1 dot
            if cfg.classes { 10 } else { 0 },                     // 2 class
            if cfg.classes { 5 } else { 0 },                      // 3 class escape
            if cfg.anchors { 5 } else { 0 },                      // 4 anchors / boundaries
            if deep { 0 } else { 10 },                            // 5 capture group
            if deep { 0 } else { 6 },                             // 6 non-capturing group
            if deep || !cfg.named { 0 } else { 3 },               // 7 named group
            if deep || !cfg.lookahead { 0 } else { 4 },           // 8 lookahead
            if deep || !cfg.lookbehind { 0 } else { 4 },          // 9 lookbehind
            if cfg.backrefs { 6 } else { 0 },                     // 10 backref
            if cfg.backrefs && cfg.named { 2 } else { 0 },        // 11 named backref
            if deep || !cfg.modifiers { 0 } else { 2 },           // 12 modifiers
            if cfg.props && umode { 3 } else { 0 },               // 13 property escape
            if cfg.long_literals { 3 } else { 0 },                // 14 literal run
            2,                                                    // 15 empty group
            if cfg.legacy_quirks && !umode { 3 } else { 0 },      // 16 legacy quirks
        ];
        let _ = in_lookbehind;
        match self.rng.weighted(&w) {
            0 => T::Lit(self.lit()),
            1 => T::Dot,
            2 => {
                let neg = self.rng.chance(1, 4);
                let body = if cfg.flags.v { self.vclass_expr(0, neg) } else { self.class_body(0) };
                T::Class(format!("[{}{}]", if neg { "^" } else { "" }, body))
            }
            3 => T::Raw(self.rng.pick(&["\\d", "\\w", "\\s", "\\D", "\\W", "\\S"]).to_string()),
            4 => T::Raw(self.rng.pick(&["^", "$", "\\b", "\\B"]).to_string()),
            5 => {
                self.groups += 1;
                T::Cap(Box::new(self.disj(depth + 1, in_lookbehind)))
            }
            6 => T::NonCap(Box::new(self.disj(depth + 1, in_lookbehind))),
            7 => {
                self.groups += 1;
                let name = self.rng.pick(&["a", "b", "n1", "$x"]).to_string();
                self.names.push(name.clone());
                T::Named(name, Box::new(self.disj(depth + 1, in_lookbehind)))
            }
            8 => T::Look { behind: false, neg: self.rng.chance(1, 3), body: Box::new(self.disj(depth + 1, false)) },
            9 => T::Look { behind: true, neg: self.rng.chance(1, 3), body: Box::new(self.disj(depth + 1, true)) },
            10 => T::BackRef(self.rng.below(8)),
            11 => T::NamedRef(self.rng.pick(&["a", "b", "n1", "$x"]).to_string()),
            12 => {
                let m = self.rng.pick(&["i", "m", "s", "-i", "-m", "-s", "im", "i-m", "s-i", "ims", "-ims", "m-s"]).to_string();
                T::Mods(m, Box::new(self.disj(depth + 1, in_lookbehind)))
            }
            13 => {
                let p = *self.rng.pick(PROP_NAMES);
                T::Raw(format!("\\{}{{{}}}", if self.rng.chance(1, 3) { 'P' } else { 'p' }, p))
            }
            14 => {
                let n = *self.rng.pick(&[2usize, 3, 4, 5, 7, 8, 15, 16, 17, 18, 31, 33, 40]);
                let mut v = Vec::new();
                for _ in 0..n {
                    v.push(T::Lit(self.lit()));
                }
                T::Seq(v)
            }
            15 => T::NonCap(Box::new(T::Seq(vec![]))),
            _ => T::Raw(self.rng.pick(&["\\c", "\\ca", "{", "}", "]", "\\8", "\\07", "\\x4", "\\u12", "\\-", "\\a", "{,3}", "a{1", "\\k"]).to_string()),
        }
    }

    fn term(&mut self, depth: usize, in_lb: bool) -> T {
        let a = self.atom(depth, in_lb);
        let quantifiable = match &a {
            T::Raw(s) => !matches!(s.as_str(), "^" | "$" | "\\b" | "\\B" | "\\c" | "{" | "{,3}" | "a{1"),
            T::Look { behind, .. } => !*behind && !self.cfg.flags.unicode_mode(),
            _ => true,
        };
        if quantifiable && self.rng.chance(35, 100) {
            // Minima above 5 are not unrolled by the optimizer and exercise the counted-loop paths
            // (Loop1CharBody with min > 0, EnterLoop minima); always present at low weight.
            let mut q = if self.rng.chance(if self.cfg.big_counts { 20 } else { 7 }, 100) {
                self.rng.pick(&["{5}", "{6}", "{4,7}", "{6,7}", "{6,8}", "{7}", "{6,}", "{10}", "{0,100}", "{8,9}", "{5,}", "{0,6}", "{1000}"]).to_string()
            } else {
                self.rng.pick(QUANTS).to_string()
            };
            if self.rng.chance(1, 4) {
                q.push('?');
            }
            T::Quant(Box::new(a), q)
        } else {
            a
        }
    }

    fn alt(&mut self, depth: usize, in_lb: bool) -> T {
        let n = match self.rng.weighted(&[2, 30, 30, 20, 10, 5]) {
            k => k,
        };
        let mut v = Vec::new();
        for _ in 0..n {
            v.push(self.term(depth, in_lb));
        }
        T::Seq(v)
    }

    fn disj(&mut self, depth: usize, in_lb: bool) -> T {
        let n = self.rng.weighted(&[0, 70, 22, 8]);
        if n <= 1 {
            return self.alt(depth, in_lb);
        }
        let mut v = Vec::new();
        for _ in 0..n {
            v.push(self.alt(depth, in_lb));
        }
        T::Alt(v)
    }

    pub fn generate(mut self) -> GenOut {
        let t = self.disj(0, false);
        let mut s = String::new();
        let groups = self.groups;
        let names = self.names.clone();
        print_t(&t, &mut s, groups, &names, true);
        let mut mentioned = self.mentioned;
        mentioned.sort_unstable();
        mentioned.dedup();
        GenOut { pattern: s, mentioned }
    }
}

fn print_t(t: &T, out: &mut String, groups: usize, names: &[String], top: bool) {
    let _ = top;
    match t {
        T::Lit(c) => push_lit(out, *c),
        T::Raw(s) => out.push_str(s),
        T::Dot => out.push('.'),
        T::Class(s) => out.push_str(s),
        T::Seq(v) => {
            for x in v {
                match x {
                    T::Alt(_) => {
                        out.push_str("(?:");
                        print_t(x, out, groups, names, false);
                        out.push(')');
                    }
                    _ => print_t(x, out, groups, names, false),
                }
            }
        }
        T::Alt(v) => {
            for (i, x) in v.iter().enumerate() {
                if i > 0 {
                    out.push('|');
                }
                print_t(x, out, groups, names, false);
            }
        }
        T::Cap(b) => {
            out.push('(');
            print_t(b, out, groups, names, false);
            out.push(')');
        }
        T::Named(n, b) => {
            out.push_str(&format!("(?<{}>", n));
            print_t(b, out, groups, names, false);
            out.push(')');
        }
        T::NonCap(b) => {
            out.push_str("(?:");
            print_t(b, out, groups, names, false);
            out.push(')');
        }
        T::Mods(m, b) => {
            out.push_str(&format!("(?{}:", m));
            print_t(b, out, groups, names, false);
            out.push(')');
        }
        T::Look { behind, neg, body } => {
            out.push_str(match (behind, neg) {
                (false, false) => "(?=",
                (false, true) => "(?!",
                (true, false) => "(?<=",
                (true, true) => "(?<!",
            });
            print_t(body, out, groups, names, false);
            out.push(')');
        }
        T::BackRef(k) => {
            if groups == 0 {
                out.push_str("(?:)");
            } else {
                out.push_str(&format!("\\{}", 1 + k % groups));
                // keep a following digit from extending the reference
                out.push_str("(?:)");
            }
        }
        T::NamedRef(n) => {
            if names.contains(n) {
                out.push_str(&format!("\\k<{}>", n));
            } else {
                out.push_str("(?:)");
            }
        }
        T::Quant(b, q) => {
            match **b {
                T::Lit(_) | T::Dot | T::Class(_) | T::Cap(_) | T::Named(..) | T::NonCap(_) | T::Mods(..) | T::Look { .. } => print_t(b, out, groups, names, false),
                T::Raw(ref s) if s.starts_with('\\') && s.len() == 2 => print_t(b, out, groups, names, false),
                T::Raw(ref s) if s.starts_with("\\p") || s.starts_with("\\P") => print_t(b, out, groups, names, false),
                _ => {
                    out.push_str("(?:");
                    print_t(b, out, groups, names, false);
                    out.push(')');
                }
            }
            out.push_str(q);
        }
    }
}

/// Default literal alphabets.
pub fn alphabet_ascii() -> Vec<u32> {
    "abcABC012_ -\n".chars().map(|c| c as u32).collect()
}

pub fn alphabet_fold() -> Vec<u32> {
    let mut v: Vec<u32> = "aAbkKsS1_".chars().map(|c| c as u32).collect();
    v.extend_from_slice(&[0x212A, 0x17F, 0xB5, 0x3BC, 0xDF, 0x1E9E, 0x3C3, 0x3C2, 0x3A3, 0xE9, 0xC9, 0x130, 0x131, 0x10400, 0x10428, 0x1C5]);
    v
}

pub fn alphabet_multibyte() -> Vec<u32> {
    let mut v: Vec<u32> = "ab1\n".chars().map(|c| c as u32).collect();
    // includes lone surrogates: they can only occur on the pattern side (printed as \uD800)
    v.extend_from_slice(&[0x7F, 0x80, 0xE9, 0x7FF, 0x800, 0x2028, 0xFFFF, 0x10000, 0x1F600, 0x10FFFF, 0x0, 0xD800, 0xDFFF]);
    v
}

// ------------------------------------------------------------------------------------------
// G-enum: exhaustive enumeration of small patterns.

#[derive(Clone, Debug, PartialEq, Eq, Hash)]
pub enum E {
    Atom(usize),
    Cat(Box<E>, Box<E>),
    Alt(Box<E>, Box<E>),
    Group(Box<E>),
    Quant(Box<E>, usize),
    Look(usize, Box<E>),
}

pub const ENUM_ATOMS: &[&str] = &["a", "b", ".", "[ab]", "\\1", "(?:)", "^", "$", "\\b"];
pub const ENUM_QUANTS: &[&str] = &["*", "+", "?", "{0}", "{2}", "{1,2}", "{2,}", "*?", "+?", "??"];
pub const ENUM_LOOKS: &[&str] = &["(?=", "(?!", "(?<=", "(?<!"];

pub struct EnumScope {
    pub atoms: Vec<&'static str>,
    pub quants: Vec<&'static str>,
    pub looks: Vec<&'static str>,
}

impl EnumScope {
    pub fn default_scope() -> EnumScope {
        EnumScope { atoms: ENUM_ATOMS.to_vec(), quants: ENUM_QUANTS.to_vec(), looks: ENUM_LOOKS.to_vec() }
    }
}

/// All expressions with exactly `n` nodes.
pub fn enum_exact(n: usize, scope: &EnumScope, memo: &mut Vec<Vec<E>>) -> Vec<E> {
    if n < memo.len() {
        return memo[n].clone();
    }
    while memo.len() <= n {
        let k = memo.len();
        let mut v = Vec::new();
        if k == 0 {
        } else if k == 1 {
            for a in 0..scope.atoms.len() {
                v.push(E::Atom(a));
            }
        } else {
            for child in memo[k - 1].clone() {
                v.push(E::Group(Box::new(child.clone())));
                for q in 0..scope.quants.len() {
                    // skip directly stacked quantifiers only when printing would need a wrapper anyway (kept: wrapper makes them valid)
                    v.push(E::Quant(Box::new(child.clone()), q));
                }
                for l in 0..scope.looks.len() {
                    v.push(E::Look(l, Box::new(child.clone())));
                }
            }
            for left in 1..k - 1 {
                let right = k - 1 - left;
                if right == 0 {
                    continue;
                }
                for a in memo[left].clone() {
                    for b in memo[right].clone() {
                        v.push(E::Cat(Box::new(a.clone()), Box::new(b.clone())));
                        v.push(E::Alt(Box::new(a.clone()), Box::new(b.clone())));
                    }
                }
            }
        }
        memo.push(v);
    }
    memo[n].clone()
}

pub fn print_e(e: &E, scope: &EnumScope, out: &mut String) {
    match e {
        E::Atom(a) => out.push_str(scope.atoms[*a]),
        E::Cat(a, b) => {
            for x in [a, b] {
                if matches!(**x, E::Alt(..)) {
                    out.push_str("(?:");
                    print_e(x, scope, out);
                    out.push(')');
                } else {
                    print_e(x, scope, out);
                }
            }
        }
        E::Alt(a, b) => {
            print_e(a, scope, out);
            out.push('|');
            print_e(b, scope, out);
        }
        E::Group(a) => {
            out.push('(');
            print_e(a, scope, out);
            out.push(')');
        }
        E::Quant(a, q) => {
            let simple = match **a {
                E::Atom(i) => !matches!(scope.atoms[i], "^" | "$" | "\\b" | "\\B"),
                E::Group(_) => true,
                _ => false,
            };
            if simple {
                print_e(a, scope, out);
            } else {
                out.push_str("(?:");
                print_e(a, scope, out);
                out.push(')');
            }
            out.push_str(scope.quants[*q]);
        }
        E::Look(l, a) => {
            out.push_str(scope.looks[*l]);
            print_e(a, scope, out);
            out.push(')');
        }
    }
}

// ------------------------------------------------------------------------------------------
// Haystacks

/// All strings over `alphabet` of length <= max_len (as Strings), shortest first.
pub fn all_strings(alphabet: &[u32], max_len: usize) -> Vec<String> {
    let chars: Vec<char> = alphabet.iter().filter_map(|&c| char::from_u32(c)).collect();
    let mut out = vec![String::new()];
    let mut frontier = vec![String::new()];
    for _ in 0..max_len {
        let mut next = Vec::new();
        for s in &frontier {
            for &c in &chars {
                let mut t = s.clone();
                t.push(c);
                next.push(t);
            }
        }
        out.extend(next.iter().cloned());
        frontier = next;
    }
    out
}

/// The relevant alphabet for a pattern: mentioned characters, their case partners, an unrelated
/// character, and line terminators; capped at `cap` characters (mentioned ones first).
/// Characters whose UTF-8 encoding contains the byte `b` (as lead byte, or as continuation byte):
/// they expose code that treats a Latin-1 code point as if it were a byte of the haystack.
pub fn byte_confusables(b: u32) -> Vec<u32> {
    let mut v = Vec::new();
    match b {
        0xC2..=0xDF => v.push((b - 0xC0) << 6),              // two-byte character with this lead byte
        0xE1..=0xEC | 0xEE..=0xEF => v.push((b - 0xE0) << 12), // three-byte character with this lead byte
        0xF1..=0xF3 => v.push((b - 0xF0) << 18),             // four-byte character with this lead byte
        0x80..=0xBF => {
            v.push(0x100 + (b - 0x80)); // C4 xx
            v.push(0x1000 + (b - 0x80)); // E1 80 xx
        }
        _ => {}
    }
    v
}

pub fn relevant_alphabet(mentioned: &[u32], cap: usize, with_partners: bool) -> Vec<u32> {
    let mut v: Vec<u32> = Vec::new();
    let mut add = |c: u32, v: &mut Vec<u32>| {
        if char::from_u32(c).is_some() && !v.contains(&c) {
            v.push(c);
        }
    };
    for &c in mentioned {
        add(c, &mut v);
    }
    if with_partners {
        for &c in mentioned {
            for p in partners(c) {
                add(p, &mut v);
            }
        }
    }
    // byte-confusable characters for Latin-1 code points (and their case partners)
    for &c in mentioned {
        for p in partners(c) {
            if (0x80..=0xFF).contains(&p) {
                for x in byte_confusables(p) {
                    add(x, &mut v);
                }
            }
        }
    }
    for c in ['x' as u32, '\n' as u32] {
        add(c, &mut v);
    }
    v.truncate(cap.max(2));
    v
}

/// Pick the largest L such that sum_{k<=L} |alphabet|^k <= budget (at least 1).
pub fn max_len_for(alpha: usize, budget: usize) -> usize {
    let mut total = 1usize;
    let mut pow = 1usize;
    let mut l = 0;
    loop {
        pow = pow.saturating_mul(alpha.max(1));
        if total.saturating_add(pow) > budget {
            break;
        }
        total += pow;
        l += 1;
        if l >= 8 {
            break;
        }
    }
    l.max(1)
}

pub fn random_string(rng: &mut Rng, alphabet: &[u32], len: usize) -> String {
    let mut s = String::new();
    for _ in 0..len {
        if let Some(c) = char::from_u32(*rng.pick(alphabet)) {
            s.push(c);
        }
    }
    s
}

/// All char-boundary start offsets of `s` (including len).
pub fn boundaries(s: &str) -> Vec<usize> {
    let mut v: Vec<usize> = s.char_indices().map(|(i, _)| i).collect();
    v.push(s.len());
    v
}
