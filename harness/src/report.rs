//! Per-run bookkeeping: counters, maxima, samples, violations; line protocol to the supervisor.

use crate::json::J;
use std::collections::{BTreeMap, HashSet};
use std::io::Write;

#[derive(Clone, Copy, Debug, PartialEq, Eq)]
pub enum Tier {
    Quick,
    Thorough,
}

#[derive(Clone, Debug)]
pub struct Cfg {
    pub check: String,
    pub tier: Tier,
    pub seed: u64,
    pub shard: usize,
    pub nshards: usize,
    /// Skip programs whose stream index is <= this (resume after a crash).
    pub resume_after: Option<u64>,
    /// Work scale factor (1.0 = the tier's nominal size).
    pub scale: f64,
    pub replay: Option<J>,
    pub opts: BTreeMap<String, String>,
}

impl Cfg {
    pub fn opt(&self, k: &str) -> Option<&str> {
        self.opts.get(k).map(|s| s.as_str())
    }
    pub fn opt_usize(&self, k: &str, default: usize) -> usize {
        self.opt(k).and_then(|s| s.parse().ok()).unwrap_or(default)
    }
    pub fn scaled(&self, n: usize) -> usize {
        ((n as f64) * self.scale).ceil().max(1.0) as usize
    }
    /// Does this shard own the item with the given hash?
    pub fn mine(&self, h: u64) -> bool {
        (h % self.nshards as u64) as usize == self.shard
    }
    pub fn quick(&self) -> bool {
        self.tier == Tier::Quick
    }
}

pub struct Report {
    pub counters: BTreeMap<String, u64>,
    pub maxima: BTreeMap<String, u64>,
    pub samples: Vec<J>,
    pub max_samples: usize,
    pub violations: u64,
    pub max_violations: u64,
    pub seen: HashSet<u64>,
    pub nontrivial: HashSet<u64>,
    pub notes: Vec<String>,
    out: std::io::Stdout,
    pub stream_index: u64,
}

impl Report {
    pub fn new() -> Report {
        Report {
            counters: BTreeMap::new(),
            maxima: BTreeMap::new(),
            samples: Vec::new(),
            max_samples: 6,
            violations: 0,
            max_violations: 25,
            seen: HashSet::new(),
            nontrivial: HashSet::new(),
            notes: Vec::new(),
            out: std::io::stdout(),
            stream_index: 0,
        }
    }
    pub fn add(&mut self, k: &str, n: u64) {
        *self.counters.entry(k.to_string()).or_insert(0) += n;
    }
    pub fn inc(&mut self, k: &str) {
        self.add(k, 1)
    }
    pub fn max(&mut self, k: &str, v: u64) {
        let e = self.maxima.entry(k.to_string()).or_insert(0);
        if v > *e {
            *e = v;
        }
    }
    pub fn get(&self, k: &str) -> u64 {
        self.counters.get(k).copied().unwrap_or(0)
    }
    /// Record an evaluation; returns true if this case hash is new.
    pub fn eval(&mut self, hash: u64, nontrivial: bool) -> bool {
        self.inc("evaluations");
        let new = self.seen.insert(hash);
        if nontrivial && new {
            self.nontrivial.insert(hash);
        }
        new
    }
    pub fn sample(&mut self, j: J) {
        if self.samples.len() < self.max_samples {
            self.samples.push(j);
        }
    }
    /// Announce the program about to be run (crash attribution). Flushed immediately.
    pub fn begin(&mut self, idx: u64, desc: &J) {
        self.stream_index = idx;
        let mut lock = self.out.lock();
        let _ = writeln!(lock, "B {}\t{}", idx, desc.to_string());
        let _ = lock.flush();
    }
    pub fn violation(&mut self, v: J) {
        self.violations += 1;
        if self.violations <= self.max_violations {
            let mut lock = self.out.lock();
            let _ = writeln!(lock, "V {}", v.to_string());
            let _ = lock.flush();
        }
    }
    pub fn known(&mut self, v: J) {
        let mut lock = self.out.lock();
        let _ = writeln!(lock, "K {}", v.to_string());
        let _ = lock.flush();
    }
    pub fn inconclusive(&mut self, why: &str) {
        self.inc("inconclusive");
        self.inc(&format!("inconclusive.{}", why));
    }
    pub fn note(&mut self, s: String) {
        if self.notes.len() < 20 {
            self.notes.push(s);
        }
    }
    pub fn finish(mut self) {
        let dn = self.nontrivial.len() as u64;
        let distinct = self.seen.len() as u64;
        self.counters.insert("distinct_nontrivial".into(), dn);
        self.counters.insert("distinct".into(), distinct);
        self.counters.insert("violations".into(), self.violations);
        let j = J::obj()
            .set("counters", J::from(&self.counters))
            .set("maxima", J::from(&self.maxima))
            .set("samples", J::Arr(self.samples.clone()))
            .set("notes", J::Arr(self.notes.iter().map(|s| J::from(s.as_str())).collect()));
        let mut lock = self.out.lock();
        let _ = writeln!(lock, "S {}", j.to_string());
        let _ = lock.flush();
    }
}

/// Merge the hook counters (opcode profile) into the report.
#[cfg(feature = "hooks")]
pub fn absorb_hooks(rep: &mut Report, c: &regress::verif::Counters) {
    use regress::verif::*;
    for (i, n) in c.sites.iter().enumerate() {
        if *n > 0 {
            rep.add(&format!("hook.site.{}", SITE_NAMES[i]), *n);
        }
    }
    for (i, d) in c.bt_insns.iter().enumerate() {
        if d[0] > 0 {
            rep.add(&format!("hook.bt.fwd.{}", INSN_KIND_NAMES[i]), d[0]);
        }
        if d[1] > 0 {
            rep.add(&format!("hook.bt.bwd.{}", INSN_KIND_NAMES[i]), d[1]);
        }
    }
    for (i, d) in c.pike_insns.iter().enumerate() {
        if d[0] > 0 {
            rep.add(&format!("hook.pike.fwd.{}", INSN_KIND_NAMES[i]), d[0]);
        }
        if d[1] > 0 {
            rep.add(&format!("hook.pike.bwd.{}", INSN_KIND_NAMES[i]), d[1]);
        }
    }
    for (i, n) in c.pops.iter().enumerate() {
        if *n > 0 {
            rep.add(&format!("hook.pop.{}", POP_KIND_NAMES[i]), *n);
        }
    }
    rep.max("hook.max_bts", c.max_bts as u64);
    rep.max("hook.max_pike_states", c.max_pike_states as u64);
}
