//! Verification harness for ridiculousfish/regress: reference model, generators, monitors.
#![cfg_attr(feature = "pattern", feature(pattern))]
#![allow(clippy::all)]

pub mod json;
pub mod rangeset;
pub mod rng;
pub mod uniref;
pub mod esref;
pub mod engine;
pub mod gen;
pub mod report;
pub mod checks;
