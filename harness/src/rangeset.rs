//! Sorted, disjoint, non-adjacent inclusive code point ranges. Independent of regress's codepointset.

pub const MAX_CP: u32 = 0x10FFFF;

#[derive(Clone, Debug, PartialEq, Eq, Default, Hash)]
pub struct RangeSet {
    r: Vec<(u32, u32)>,
}

impl RangeSet {
    pub fn new() -> Self {
        RangeSet { r: Vec::new() }
    }
    pub fn all() -> Self {
        RangeSet { r: vec![(0, MAX_CP)] }
    }
    pub fn single(c: u32) -> Self {
        RangeSet { r: vec![(c, c)] }
    }
    pub fn from_range(a: u32, b: u32) -> Self {
        if a > b {
            RangeSet::new()
        } else {
            RangeSet { r: vec![(a, b)] }
        }
    }
    /// Build from arbitrary (unsorted, overlapping) ranges.
    pub fn from_ranges<I: IntoIterator<Item = (u32, u32)>>(it: I) -> Self {
        let mut v: Vec<(u32, u32)> = it.into_iter().filter(|(a, b)| a <= b).collect();
        v.sort_unstable();
        let mut out: Vec<(u32, u32)> = Vec::with_capacity(v.len());
        for (a, b) in v {
            if let Some(last) = out.last_mut() {
                if a <= last.1.saturating_add(1) {
                    if b > last.1 {
                        last.1 = b;
                    }
                    continue;
                }
            }
            out.push((a, b));
        }
        RangeSet { r: out }
    }
    pub fn from_cps<I: IntoIterator<Item = u32>>(it: I) -> Self {
        Self::from_ranges(it.into_iter().map(|c| (c, c)))
    }
    pub fn ranges(&self) -> &[(u32, u32)] {
        &self.r
    }
    pub fn is_empty(&self) -> bool {
        self.r.is_empty()
    }
    pub fn count(&self) -> u64 {
        self.r.iter().map(|(a, b)| (*b - *a) as u64 + 1).sum()
    }
    pub fn contains(&self, c: u32) -> bool {
        let mut lo = 0usize;
        let mut hi = self.r.len();
        while lo < hi {
            let mid = (lo + hi) / 2;
            let (a, b) = self.r[mid];
            if c < a {
                hi = mid;
            } else if c > b {
                lo = mid + 1;
            } else {
                return true;
            }
        }
        false
    }
    pub fn add(&mut self, c: u32) {
        self.add_range(c, c)
    }
    pub fn add_range(&mut self, a: u32, b: u32) {
        if a > b {
            return;
        }
        let mut v = std::mem::take(&mut self.r);
        v.push((a, b));
        *self = RangeSet::from_ranges(v);
    }
    pub fn union(&self, o: &RangeSet) -> RangeSet {
        RangeSet::from_ranges(self.r.iter().chain(o.r.iter()).copied())
    }
    pub fn complement(&self) -> RangeSet {
        let mut out = Vec::with_capacity(self.r.len() + 1);
        let mut next = 0u32;
        let mut done = false;
        for &(a, b) in &self.r {
            if a > next {
                out.push((next, a - 1));
            }
            if b == MAX_CP {
                done = true;
                break;
            }
            next = b + 1;
        }
        if !done && next <= MAX_CP {
            out.push((next, MAX_CP));
        }
        RangeSet { r: out }
    }
    pub fn intersect(&self, o: &RangeSet) -> RangeSet {
        let mut out = Vec::new();
        let (mut i, mut j) = (0, 0);
        while i < self.r.len() && j < o.r.len() {
            let (a1, b1) = self.r[i];
            let (a2, b2) = o.r[j];
            let a = a1.max(a2);
            let b = b1.min(b2);
            if a <= b {
                out.push((a, b));
            }
            if b1 < b2 {
                i += 1;
            } else {
                j += 1;
            }
        }
        RangeSet { r: out }
    }
    pub fn subtract(&self, o: &RangeSet) -> RangeSet {
        self.intersect(&o.complement())
    }
    pub fn iter(&self) -> impl Iterator<Item = u32> + '_ {
        self.r.iter().flat_map(|&(a, b)| a..=b)
    }
    /// A short human-readable rendering, e.g. "61-7A,C0".
    pub fn describe(&self, max_ranges: usize) -> String {
        let mut s = String::new();
        for (i, (a, b)) in self.r.iter().enumerate() {
            if i >= max_ranges {
                s.push_str(&format!(",…(+{} ranges)", self.r.len() - i));
                break;
            }
            if i > 0 {
                s.push(',');
            }
            if a == b {
                s.push_str(&format!("{:X}", a));
            } else {
                s.push_str(&format!("{:X}-{:X}", a, b));
            }
        }
        s
    }
}

#[cfg(test)]
mod tests {
    use super::*;
    #[test]
    fn basics() {
        let a = RangeSet::from_ranges([(5, 10), (1, 2), (3, 3), (20, 30)]);
        assert_eq!(a.ranges(), &[(1, 3), (5, 10), (20, 30)]);
        assert!(a.contains(7) && !a.contains(4) && !a.contains(11));
        let c = a.complement();
        assert_eq!(c.ranges(), &[(0, 0), (4, 4), (11, 19), (31, MAX_CP)]);
        assert_eq!(c.complement(), a);
        let b = RangeSet::from_ranges([(0, 6), (25, MAX_CP)]);
        assert_eq!(a.intersect(&b).ranges(), &[(1, 3), (5, 6), (25, 30)]);
        assert_eq!(a.subtract(&b).ranges(), &[(7, 10), (20, 24)]);
        assert_eq!(RangeSet::all().complement(), RangeSet::new());
        assert_eq!(RangeSet::new().complement(), RangeSet::all());
    }
}
