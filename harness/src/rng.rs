//! Small deterministic PRNG (splitmix64 seeding + xoshiro256**), no dependencies.

#[derive(Clone, Debug)]
pub struct Rng {
    s: [u64; 4],
}

fn splitmix(x: &mut u64) -> u64 {
    *x = x.wrapping_add(0x9E3779B97F4A7C15);
    let mut z = *x;
    z = (z ^ (z >> 30)).wrapping_mul(0xBF58476D1CE4E5B9);
    z = (z ^ (z >> 27)).wrapping_mul(0x94D049BB133111EB);
    z ^ (z >> 31)
}

impl Rng {
    pub fn new(seed: u64) -> Self {
        let mut x = seed;
        let s = [splitmix(&mut x), splitmix(&mut x), splitmix(&mut x), splitmix(&mut x)];
        Rng { s }
    }
    /// Derive an independent stream.
    pub fn fork(&mut self, tag: u64) -> Rng {
        Rng::new(self.next_u64() ^ tag.wrapping_mul(0xD6E8FEB86659FD93))
    }
    pub fn next_u64(&mut self) -> u64 {
        let r = self.s[1].wrapping_mul(5).rotate_left(7).wrapping_mul(9);
        let t = self.s[1] << 17;
        self.s[2] ^= self.s[0];
        self.s[3] ^= self.s[1];
        self.s[1] ^= self.s[2];
        self.s[0] ^= self.s[3];
        self.s[2] ^= t;
        self.s[3] = self.s[3].rotate_left(45);
        r
    }
    /// Uniform in 0..n (n > 0).
    pub fn below(&mut self, n: usize) -> usize {
        debug_assert!(n > 0);
        (self.next_u64() % (n as u64)) as usize
    }
    /// Uniform in lo..=hi.
    pub fn range(&mut self, lo: usize, hi: usize) -> usize {
        lo + self.below(hi - lo + 1)
    }
    pub fn chance(&mut self, num: usize, den: usize) -> bool {
        self.below(den) < num
    }
    pub fn pick<'a, T>(&mut self, xs: &'a [T]) -> &'a T {
        &xs[self.below(xs.len())]
    }
    /// Pick an index according to integer weights.
    pub fn weighted(&mut self, weights: &[u32]) -> usize {
        let total: u64 = weights.iter().map(|&w| w as u64).sum();
        let mut r = self.next_u64() % total.max(1);
        for (i, &w) in weights.iter().enumerate() {
            if r < w as u64 {
                return i;
            }
            r -= w as u64;
        }
        weights.len() - 1
    }
    pub fn shuffle<T>(&mut self, xs: &mut [T]) {
        for i in (1..xs.len()).rev() {
            let j = self.below(i + 1);
            xs.swap(i, j);
        }
    }
}

/// FNV-1a 64-bit hash, used for case identity / sharding / distinct counting.
pub fn fnv64(bytes: &[u8]) -> u64 {
    let mut h: u64 = 0xcbf29ce484222325;
    for &b in bytes {
        h ^= b as u64;
        h = h.wrapping_mul(0x100000001b3);
    }
    h
}

pub fn fnv64_u32s(xs: &[u32]) -> u64 {
    let mut h: u64 = 0xcbf29ce484222325;
    for &x in xs {
        for b in x.to_le_bytes() {
            h ^= b as u64;
            h = h.wrapping_mul(0x100000001b3);
        }
    }
    h
}
