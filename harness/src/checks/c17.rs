//! C17: replace / replace_all are splice-and-expand over the match sequence.

use super::common::*;
use crate::engine::{self, Guarded};
use crate::esref::Flags;
use crate::gen;
use crate::json::J;
use crate::report::{Cfg, Report};
use crate::rng::{fnv64, Rng};

const FUEL: u64 = 5_000_000;

/// The expansion written from the statement: `$$` is a dollar sign, `$N` (N = maximal digit run)
/// and `${name}` are the text of that group or nothing, anything else is literal. Returns None if
/// the template contains a digit run whose value exceeds 65535 (outside what the statement
/// defines; the implementation stops consuming digits there).
fn expand(template: &str, hay: &str, m: &regress::Match, names: &[(String, usize)]) -> Option<String> {
    let t: Vec<char> = template.chars().collect();
    let mut out = String::new();
    let mut i = 0;
    while i < t.len() {
        let c = t[i];
        if c != '$' {
            out.push(c);
            i += 1;
            continue;
        }
        match t.get(i + 1) {
            Some('$') => {
                out.push('$');
                i += 2;
            }
            Some(d) if d.is_ascii_digit() => {
                let mut j = i + 1;
                let mut val: u64 = 0;
                while j < t.len() && t[j].is_ascii_digit() {
                    val = val.saturating_mul(10).saturating_add(t[j].to_digit(10).unwrap() as u64);
                    j += 1;
                }
                if val > 65535 {
                    return None;
                }
                let g = val as usize;
                if g == 0 {
                    out.push_str(&hay[m.range()]);
                } else if g <= m.captures.len() {
                    if let Some(r) = &m.captures[g - 1] {
                        out.push_str(&hay[r.clone()]);
                    }
                }
                i = j;
            }
            Some('{') => {
                if let Some(close) = t[i + 2..].iter().position(|&x| x == '}') {
                    let name: String = t[i + 2..i + 2 + close].iter().collect();
                    // the participating group with that name
                    for (n, gi) in names {
                        if *n == name {
                            if let Some(r) = &m.captures[*gi] {
                                out.push_str(&hay[r.clone()]);
                                break;
                            }
                        }
                    }
                    i = i + 2 + close + 1;
                } else {
                    // unterminated: literal
                    out.extend(t[i..].iter());
                    i = t.len();
                }
            }
            _ => {
                out.push('$');
                i += 1;
            }
        }
    }
    Some(out)
}

fn templates(rng: &mut Rng, exhaustive_len: usize, n_random: usize) -> Vec<String> {
    // includes non-ASCII numeric characters: "$²" is a dollar sign and a superscript two, not a group reference
    let atoms: Vec<&str> = vec!["$", "0", "1", "2", "9", "{", "}", "a", "n", "é", "x", "²", "٣"];
    let mut v: Vec<String> = vec![String::new()];
    let mut frontier = vec![String::new()];
    for _ in 0..exhaustive_len {
        let mut next = Vec::new();
        for s in &frontier {
            for a in &atoms {
                next.push(format!("{}{}", s, a));
            }
        }
        v.extend(next.iter().cloned());
        frontier = next;
    }
    let pieces = ["$$", "$0", "$1", "$2", "$3", "$10", "$01", "$99", "${a}", "${n}", "${}", "${nope}", "${é}", "${x}", "${a", "$", "$x", "é", "-", "\u{10000}", "$65535", "$65536", "$123456789", "$000002", "$0000012", "$000000", "$0000001", "$00010", "$000000000000000000001", "$065535", "$0065536", "$00000x", "$000001${a}", "{", "}", "${a}}", "$$1", "$ 1", "$²", "$①", "$１", "$½", "$٣0", "1$", "$-1", "$+1", "${1}", "${0}", "$\u{0}", "${ a}", "$ {a}"];
    for _ in 0..n_random {
        let k = rng.range(1, 5);
        let mut s = String::new();
        for _ in 0..k {
            s.push_str(*rng.pick(&pieces));
        }
        v.push(s);
    }
    v
}

pub fn run(cfg: &Cfg, rep: &mut Report) {
    let f = |s: &str| Flags::from_str(s);
    let regexes: Vec<(&str, Flags)> = vec![
        ("(a)(b)?", f("")),
        ("(?<a>x)|(?<a>y)", f("")),
        ("(?<n>\\d+)-(?<a>\\w)", f("")),
        ("a*", f("")),
        ("", f("")),
        ("\\b", f("")),
        ("é|(\u{10000})", f("u")),
        ("(?<é>x)(y)?", f("u")),
        ("(.)(.)(.)(.)(.)(.)(.)(.)(.)(.)", f("s")),
        ("(?<=(?<a>a))(?<n>b)", f("")),
        ("zzz", f("")),
        ("(a)|(b)|(c)", f("i")),
        ("[\\q{ab|a}](?<n>c)?", f("v")),
        ("x*?", f("")),
        ("(?:a|(b))+", f("")),
        // several groups inside one lookbehind (emitted right to left): names must still go with their own group
        ("(?<=(\\d+)(?<n>px|em))\\b", f("")),
        ("(?<=(?<a>a)(b)(?<n>c))", f("")),
        ("(?<=(?<n>a)(?<a>b))c|(?<x>x)", f("")),
        ("(?<!(?<a>q)(?<n>r))(?=(?<x>a)(b))a", f("")),
        ("(?<=(?<n>.)(?=(?<a>.)(.))(?<x>.))", f("s")),
    ];
    let haystacks = ["", "a", "ab", "aab", "xyz", "12-a 3-b", "éa\u{10000}b", "abcdefghijkl", "aAbBcC", "abcab", "y", "x", "bbb", "a\nb", "12px 3em"];
    let mut rng = Rng::new(cfg.seed ^ 0x17);
    let tpls = templates(&mut rng, if cfg.quick() { 4 } else { 5 }, cfg.scaled(if cfg.quick() { 20_000 } else { 300_000 }));
    rep.add("templates", tpls.len() as u64);
    let mut idx = 0u64;
    for (ri, (pat, flags)) in regexes.iter().enumerate() {
        let re = match engine::compile(&engine::to_cps(pat), *flags, false) {
            Guarded::Ok(Ok(re)) => re,
            _ => {
                rep.note(format!("fixed regex {:?} did not compile", pat));
                continue;
            }
        };
        let names: Vec<(String, usize)> = match crate::esref::parse(&engine::to_cps(pat), *flags) {
            Ok(p) => p.group_names.iter().enumerate().skip(1).filter_map(|(i, n)| n.clone().map(|n| (n, i - 1))).collect(),
            Err(_) => vec![],
        };
        for (ti, tpl) in tpls.iter().enumerate() {
            idx += 1;
            let h = fnv64(format!("{}|{}", ri, tpl).as_bytes());
            if !cfg.mine(h) {
                continue;
            }
            if let Some(r) = cfg.resume_after {
                if idx <= r {
                    continue;
                }
            }
            if ti % 64 == 0 {
                rep.begin(idx, &J::obj().set("pattern", *pat).set("flags", flags.to_string()).set("template", tpl.as_str()));
            }
            for hay in &haystacks {
                let r = engine::guarded(FUEL, || {
                    let ms: Vec<regress::Match> = re.find_iter(hay).collect();
                    // model
                    let mut all = String::new();
                    let mut first: Option<String> = None;
                    let mut last = 0;
                    let mut defined = true;
                    for (k, m) in ms.iter().enumerate() {
                        let e = expand(tpl, hay, m, &names);
                        if e.is_none() {
                            defined = false;
                        }
                        let e = e.unwrap_or_default();
                        all.push_str(&hay[last..m.start()]);
                        all.push_str(&e);
                        last = m.end();
                        if k == 0 {
                            first = Some(format!("{}{}{}", &hay[..m.start()], e, &hay[m.end()..]));
                        }
                    }
                    all.push_str(&hay[last..]);
                    let first = first.unwrap_or_else(|| hay.to_string());
                    let got_first = re.replace(hay, tpl);
                    let got_all = re.replace_all(hay, tpl);
                    // closure variants
                    let ident_all = re.replace_all_with(hay, |m| m.as_str(hay).to_string());
                    let ident_first = re.replace_with(hay, |m| m.as_str(hay).to_string());
                    let const_all = re.replace_all_with(hay, |_| tpl.to_string());
                    let mut const_model = String::new();
                    let mut l2 = 0;
                    for m in &ms {
                        const_model.push_str(&hay[l2..m.start()]);
                        const_model.push_str(tpl);
                        l2 = m.end();
                    }
                    const_model.push_str(&hay[l2..]);
                    (ms.len(), defined, first, all, got_first, got_all, ident_all, ident_first, const_all, const_model)
                });
                let case = || J::obj().set("pattern", *pat).set("flags", flags.to_string()).set("template", tpl.as_str()).set("haystack", *hay).set("check", "c17");
                match r {
                    Guarded::Ok((n, defined, first, all, got_first, got_all, ident_all, ident_first, const_all, const_model)) => {
                        let hh = fnv64(format!("{}|{}|{}", ri, tpl, hay).as_bytes());
                        rep.eval(hh, n > 0 && tpl.contains('$'));
                        if !defined {
                            rep.inc("templates_with_group_number_above_65535_excluded");
                        } else {
                            if got_first != first {
                                rep.violation(violation("C17", "replace differs from splice-and-expand of the first match", case(), got_first.clone(), first.clone()));
                            }
                            if got_all != all {
                                rep.violation(violation("C17", "replace_all differs from splice-and-expand over find_iter", case(), got_all.clone(), all.clone()));
                            }
                        }
                        if ident_all != *hay || ident_first != *hay {
                            rep.violation(violation("C17", "replacing every match by its own text is not the identity", case(), format!("{:?} / {:?}", ident_all, ident_first), hay.to_string()));
                        }
                        if const_all != const_model {
                            rep.violation(violation("C17", "replace_all_with differs from splicing the closure's result", case(), const_all, const_model));
                        }
                        if n == 0 {
                            rep.inc("cases_without_match");
                            if got_first != *hay || got_all != *hay {
                                rep.violation(violation("C17", "a haystack without a match was changed", case(), format!("{:?} / {:?}", got_first, got_all), hay.to_string()));
                            }
                        }
                        if rep.samples.len() < rep.max_samples && n > 1 && tpl.len() > 3 && tpl.contains('$') && idx % 97 == 0 {
                            rep.sample(case().set("replace_all", got_all));
                        }
                    }
                    Guarded::Fuel => rep.inconclusive("fuel"),
                    Guarded::Panic(m) => rep.violation(violation("C17", "replace panicked", case(), m, "no panic".into())),
                }
            }
        }
    }
    let _ = gen::boundaries("");
}
