//! C07: compilation is total: any sequence of code points yields Ok or Err.
//! Events: the return value, caught panics, compile-step fuel exhaustion (hook ticks in the
//! parser / optimizer / emitter), and process death (seen by the supervisor).
//! The work runs on a thread with an 8 MiB stack, the situation of a user's main thread.

use super::common::*;
use crate::engine::{self, Guarded};
use crate::esref::Flags;
use crate::json::J;
use crate::report::{Cfg, Report};
use crate::rng::{fnv64, Rng};

fn rep_str(s: &str, n: usize) -> Vec<u32> {
    let unit: Vec<u32> = s.chars().map(|c| c as u32).collect();
    let mut v = Vec::with_capacity(unit.len() * n);
    for _ in 0..n {
        v.extend_from_slice(&unit);
    }
    v
}

fn cps(s: &str) -> Vec<u32> {
    s.chars().map(|c| c as u32).collect()
}

/// Adversarial families, parameterised by a size.
pub const FAMILIES: &[&str] = &[
    "alt_chain", "alt_chain_groups", "nested_groups", "nested_noncapture", "nested_lookahead", "nested_lookbehind", "nested_classes_v", "many_groups", "many_named_groups", "many_loops", "long_literal", "long_literal_icase",
    "big_class", "big_class_icase", "unroll_tower", "huge_count", "huge_count_pair", "same_name_alternatives", "many_backrefs", "deep_quantifier_stack", "long_class_string", "many_class_strings", "nested_modifiers", "star_chain", "open_parens", "open_brackets", "backslashes",
];

pub fn family(name: &str, n: usize) -> (Vec<u32>, &'static str) {
    match name {
        "alt_chain" => {
            let mut v = rep_str("a|", n);
            v.push('a' as u32);
            (v, "")
        }
        "alt_chain_groups" => {
            let mut v = rep_str("(a)|", n);
            v.push('b' as u32);
            (v, "")
        }
        "nested_groups" => {
            let mut v = rep_str("(", n);
            v.push('a' as u32);
            v.extend(rep_str(")", n));
            (v, "")
        }
        "nested_noncapture" => {
            let mut v = rep_str("(?:", n);
            v.push('a' as u32);
            v.extend(rep_str(")", n));
            (v, "u")
        }
        "nested_lookahead" => {
            let mut v = rep_str("(?=", n);
            v.push('a' as u32);
            v.extend(rep_str(")", n));
            (v, "")
        }
        "nested_lookbehind" => {
            let mut v = rep_str("(?<=", n);
            v.push('a' as u32);
            v.extend(rep_str(")", n));
            (v, "")
        }
        "nested_classes_v" => {
            let mut v = rep_str("[", n);
            v.push('a' as u32);
            v.extend(rep_str("]", n));
            (v, "v")
        }
        "many_groups" => (rep_str("(a)", n), ""),
        "many_named_groups" => {
            let mut v = Vec::new();
            for i in 0..n {
                v.extend(cps(&format!("(?<g{}>a)", i)));
            }
            (v, "")
        }
        "many_loops" => (rep_str("a*", n), ""),
        "long_literal" => (rep_str("a", n), ""),
        "long_literal_icase" => (rep_str("k", n), "iu"),
        "big_class" => {
            let mut v = cps("[");
            for i in 0..n {
                let c = 0x100 + (i as u32 * 3) % 0xD000;
                v.push(c);
            }
            v.push(']' as u32);
            (v, "")
        }
        "big_class_icase" => {
            let mut v = cps("[");
            for i in 0..n {
                let c = 0x100 + (i as u32 * 2) % 0xD000;
                v.push(c);
                v.push('-' as u32);
                v.push(c);
            }
            v.push(']' as u32);
            (v, "iu")
        }
        "unroll_tower" => {
            let depth = n.min(200);
            let mut v = rep_str("(?:", depth);
            v.push('a' as u32);
            v.extend(rep_str("){5}", depth));
            (v, "")
        }
        "huge_count" => {
            let mut v = cps("a{");
            v.extend(rep_str("9", n.min(100_000)));
            v.extend(cps(",}"));
            (v, "")
        }
        "huge_count_pair" => {
            let mut v = cps("(?:a{2,1}");
            v.extend(cps("|b{"));
            v.extend(rep_str("9", n.min(1000)));
            v.extend(cps(","));
            v.extend(rep_str("9", n.min(1000)));
            v.extend(cps("})"));
            (v, "")
        }
        "same_name_alternatives" => {
            let mut v = Vec::new();
            for i in 0..n {
                if i > 0 {
                    v.push('|' as u32);
                }
                v.extend(cps("(?<a>x)"));
            }
            (v, "")
        }
        "many_backrefs" => {
            let mut v = cps("(a)");
            v.extend(rep_str("\\1", n));
            (v, "")
        }
        "deep_quantifier_stack" => {
            // (?:(?:a*)*)* ...
            let depth = n.min(250);
            let mut v = rep_str("(?:", depth);
            v.push('a' as u32);
            v.extend(rep_str(")*", depth));
            (v, "")
        }
        "long_class_string" => {
            let mut v = cps("[\\q{");
            v.extend(rep_str("a", n));
            v.extend(cps("}]"));
            (v, "v")
        }
        "many_class_strings" => {
            let mut v = cps("[\\q{");
            for i in 0..n {
                if i > 0 {
                    v.push('|' as u32);
                }
                v.extend(cps(&format!("a{}", i)));
            }
            v.extend(cps("}]"));
            (v, "iv")
        }
        "nested_modifiers" => {
            let mut v = Vec::new();
            for i in 0..n {
                v.extend(cps(if i % 2 == 0 { "(?i:" } else { "(?-i:" }));
            }
            v.push('a' as u32);
            v.extend(rep_str(")", n));
            (v, "")
        }
        "star_chain" => (rep_str("(?:a*)", n), "u"),
        "open_parens" => (rep_str("(", n), ""),
        "open_brackets" => (rep_str("[", n), "v"),
        _ => (rep_str("\\", n), ""),
    }
}

const CORPUS: &[&str] = &[
    "(a{1,2}?\\1?)c", "(?<=(\\d+)(\\d+))$", "[\\q{ab|a|}]x", "(?<a>x)|(?<a>y)\\k<a>", "\\p{Lu}\\P{sc=Greek}", "[a-z&&[^aeiou]]", "(?i:a)b|(?-i:a)B", "\\u{1F600}\\uD83D\\uDE00", "a{2,3}?b*+", "\\cA\\x41\\u0041\\0\\8",
    "[\\d-x]|[a-\\d]", "(?=a)*b", "\\k<a>(?<a>b)", "^$\\b\\B.", "[^\\W\\d_]+", "(?:(?:a{5}){5}){5}", "[[a-z]--[aeiou]]", "\\q{abc}", "(?<é>x)\\k<é>", "\\1(a)|\\2",
];

fn compile_steps_bound(n: usize) -> u64 {
    // generous: measured maxima are far below this on every family
    2_000_000 + 5_000 * (n as u64)
}

fn run_case(rep: &mut Report, desc: &J, pat: &[u32], flags: Flags, no_opt: bool) -> &'static str {
    let n = pat.len();
    #[cfg(feature = "hooks")]
    engine::hooks::reset();
    let r = engine::guarded(compile_steps_bound(n), || regress::Regex::from_unicode(pat.iter().copied(), engine::rflags(flags, no_opt)).map(|_| ()).map_err(|e| e.text));
    #[cfg(feature = "hooks")]
    {
        let c = engine::hooks::take();
        rep.max("max_compile_steps", c.steps());
        if n > 0 {
            rep.max("max_compile_steps_per_code_point_x100", c.steps() * 100 / n as u64);
        }
        crate::report::absorb_hooks(rep, &c);
    }
    let h = fnv64(desc.to_string().as_bytes()) ^ (no_opt as u64);
    match r {
        Guarded::Ok(Ok(())) => {
            rep.eval(h, n > 0);
            "ok"
        }
        Guarded::Ok(Err(_)) => {
            rep.eval(h, n > 0);
            "err"
        }
        Guarded::Panic(m) => {
            rep.inc("evaluations");
            rep.violation(violation("C07", "compilation panicked", desc.clone().set("check", "c07").set("no_opt", no_opt), m, "Ok or Err".into()));
            "panic"
        }
        Guarded::Fuel => {
            rep.inc("evaluations");
            rep.violation(violation(
                "C07",
                "compilation exceeded its logical step bound (does not terminate in reasonable steps)",
                desc.clone().set("check", "c07").set("no_opt", no_opt),
                format!("more than {} parser/optimizer/emitter steps for {} code points", compile_steps_bound(n), n),
                "Ok or Err".into(),
            ));
            "fuel"
        }
    }
}

pub fn run(cfg: &Cfg, rep: &mut Report) {
    if let Some(r) = &cfg.replay {
        let case = r.get("case").unwrap_or(r);
        let flags = Flags::from_str(case.get("flags").and_then(|f| f.as_str()).unwrap_or(""));
        let pat: Vec<u32> = if let Some(fam) = case.get("family").and_then(|f| f.as_str()) {
            family(fam, case.get("n").and_then(|n| n.as_i64()).unwrap_or(1) as usize).0
        } else {
            case.get("pattern_cps").and_then(|a| a.as_arr()).map(|a| a.iter().filter_map(|x| x.as_i64()).map(|x| x as u32).collect()).unwrap_or_default()
        };
        let no_opt = case.get("no_opt").and_then(|b| b.as_bool()).unwrap_or(false);
        rep.begin(1, case);
        let out = run_case(rep, case, &pat, flags, no_opt);
        println!("REPLAY-HELD {} -> {}", case.to_string(), out);
        return;
    }
    let mut idx: u64 = 0;
    let skip = |idx: u64| cfg.resume_after.map(|r| idx <= r).unwrap_or(false);
    // 1. adversarial ladders
    let ladder: Vec<usize> = if cfg.quick() { vec![1, 2, 10, 100, 255, 256, 257, 1000, 5000, 20_000, 65_534, 65_535, 65_536, 100_000] } else { vec![1, 2, 3, 10, 100, 255, 256, 257, 1000, 5000, 10_000, 20_000, 50_000, 65_534, 65_535, 65_536, 100_000, 300_000, 1_000_000] };
    for fam in FAMILIES {
        for &n in &ladder {
            idx += 1;
            let h = fnv64(format!("{}|{}", fam, n).as_bytes());
            if !cfg.mine(h) || skip(idx) {
                continue;
            }
            // families quadratic in n are capped
            let cap = match *fam {
                "many_named_groups" | "same_name_alternatives" | "many_class_strings" => 20_000,
                "big_class_icase" | "big_class" => 200_000,
                _ => usize::MAX,
            };
            if n > cap {
                continue;
            }
            let (pat, fl) = family(fam, n);
            let desc = J::obj().set("family", *fam).set("n", n).set("flags", fl).set("length", pat.len());
            rep.begin(idx, &desc);
            rep.inc("programs");
            let out = run_case(rep, &desc, &pat, Flags::from_str(fl), false);
            rep.inc(&format!("ladder.{}.{}", fam, out));
            rep.max(&format!("ladder_max_n.{}", fam), n as u64);
            if n >= 1000 && rep.samples.len() < rep.max_samples {
                rep.sample(desc.clone().set("outcome", out));
            }
        }
    }
    // 1b. boundary code points in every syntactic position that lowers them differently:
    // class ranges ending / starting exactly at encoding and table boundaries, single literals,
    // small sets; under every mode, with and without i, with and without the optimizer.
    let bounds: [u32; 22] = [0x0, 0x1, 0x2F, 0x30, 0x7E, 0x7F, 0x80, 0x81, 0xFF, 0x100, 0x7FF, 0x800, 0xD7FF, 0xD800, 0xDBFF, 0xDC00, 0xDFFF, 0xE000, 0xFFFF, 0x10000, 0x10FFFE, 0x10FFFF];
    let esc = |c: u32, v: &mut Vec<u32>| {
        if matches!(char::from_u32(c), Some('\\' | ']' | '[' | '^' | '-' | '(' | ')' | '{' | '}' | '/' | '|' | '*' | '+' | '?' | '.' | '$')) {
            v.push('\\' as u32);
        }
        v.push(c);
    };
    for (ai, &a) in bounds.iter().enumerate() {
        for &b in &bounds[ai..] {
            for shape in 0..6 {
                let mut p: Vec<u32> = Vec::new();
                match shape {
                    0 => {
                        p.push('[' as u32);
                        esc(a, &mut p);
                        p.push('-' as u32);
                        esc(b, &mut p);
                        p.push(']' as u32);
                    }
                    1 => {
                        p.extend(cps("[^"));
                        esc(a, &mut p);
                        p.push('-' as u32);
                        esc(b, &mut p);
                        p.push(']' as u32);
                    }
                    2 => {
                        p.push('[' as u32);
                        esc(a, &mut p);
                        esc(b, &mut p);
                        p.push(']' as u32);
                    }
                    3 => {
                        esc(a, &mut p);
                        esc(b, &mut p);
                    }
                    4 => {
                        p.extend(cps("(?<=["));
                        esc(a, &mut p);
                        p.push('-' as u32);
                        esc(b, &mut p);
                        p.extend(cps("]+)"));
                        esc(a, &mut p);
                        p.extend(cps("*?"));
                    }
                    _ => {
                        p.extend(cps("[a"));
                        esc(a, &mut p);
                        p.extend(cps("]|[\\d"));
                        esc(b, &mut p);
                        p.extend(cps("]{2,}"));
                    }
                }
                for fl in ["", "i", "u", "iu", "v", "iv"] {
                    for no_opt in [false, true] {
                        idx += 1;
                        let h = fnv64(format!("b|{}|{}|{}|{}|{}", a, b, shape, fl, no_opt).as_bytes());
                        if !cfg.mine(h) || skip(idx) {
                            continue;
                        }
                        let desc = J::obj().set("pattern", engine::cps_to_string_lossy(&p)).set("pattern_cps", J::Arr(p.iter().map(|&c| J::from(c)).collect())).set("flags", fl).set("source", "boundary_code_points");
                        if idx % 64 == 0 {
                            rep.begin(idx, &desc);
                        }
                        rep.inc("programs");
                        rep.inc("source.boundary_code_points");
                        let out = run_case(rep, &desc, &p, Flags::from_str(fl), no_opt);
                        rep.inc(&format!("outcome.{}", out));
                    }
                }
            }
        }
    }
    // 1c. case folding at compile time: one representative of every case equivalence class (by
    // size and by relation; quick tier: every class with more than two members, a seed-selected
    // eighth of the pairs) in every position that expands or closes it -- literal, class, negated
    // class, class string of two or more characters, lookbehind, counted loop.
    {
        let cd = crate::uniref::case_data();
        let mut reps: Vec<u32> = Vec::new();
        for unicode in [true, false] {
            for c in cd.nontrivial(unicode).iter() {
                let cls = cd.class_of(c, unicode);
                if cls[0] != c {
                    continue;
                }
                if cfg.quick() && cls.len() <= 2 && c % 8 != (cfg.seed % 8) as u32 {
                    continue;
                }
                // the representative and the last member (tables are often keyed on one of them)
                reps.push(c);
                reps.push(*cls.last().unwrap());
            }
        }
        reps.sort_unstable();
        reps.dedup();
        rep.add("case_class_members_compiled", 0);
        for &c in &reps {
            let mut lit = Vec::new();
            esc(c, &mut lit);
            let l = engine::cps_to_string_lossy(&lit);
            for tmpl in ["X", "[X]", "[^X]", "[\\q{Xa}]", "[\\q{aX|X}]", "(?<=Xa)b", "X{2,3}?a", "[X-X]", "(X)\\1", "[^\\q{X}]"] {
                let ps = tmpl.replace("X", &l);
                let p = cps(&ps);
                for fl in ["i", "iu", "iv"] {
                    idx += 1;
                    let h = fnv64(format!("cf|{}|{}|{}", c, tmpl, fl).as_bytes());
                    if !cfg.mine(h) || skip(idx) {
                        continue;
                    }
                    let desc = J::obj().set("pattern", ps.as_str()).set("pattern_cps", J::Arr(p.iter().map(|&c| J::from(c)).collect())).set("flags", fl).set("source", "case_classes");
                    if idx % 64 == 0 {
                        rep.begin(idx, &desc);
                    }
                    rep.inc("programs");
                    rep.inc("source.case_classes");
                    let out = run_case(rep, &desc, &p, Flags::from_str(fl), idx % 4 == 0);
                    rep.inc(&format!("outcome.{}", out));
                }
            }
            rep.inc("case_class_members_compiled");
        }
    }
    // 1d. every class expression of the C12 enumeration (legacy / u brackets, v-mode unions,
    // intersections, subtractions, nestings, \q{} strings incl. the empty one) is also a compile
    // case here, with the optimizer on and off
    for (ps, fl) in super::c12::build(cfg) {
        idx += 1;
        let h = fnv64(format!("cs|{}|{}", ps, fl.to_string()).as_bytes());
        if !cfg.mine(h) || skip(idx) {
            continue;
        }
        let p = cps(&ps);
        let desc = J::obj().set("pattern", ps.as_str()).set("pattern_cps", J::Arr(p.iter().map(|&c| J::from(c)).collect())).set("flags", fl.to_string()).set("source", "class_expressions");
        if idx % 64 == 0 {
            rep.begin(idx, &desc);
        }
        rep.inc("programs");
        rep.inc("source.class_expressions");
        let out = run_case(rep, &desc, &p, fl, idx % 3 == 0);
        rep.inc(&format!("outcome.{}", out));
    }
    // 1e. alternations of literal and class arms whose UTF-8 encodings share lead bytes (the start
    // predicate merges the arms' first bytes / common prefixes): all ordered triples and pairs
    {
        let arms = ["x", "é", "è", "д", "н", "本", "木", "😀", "😁", "ab", "a", "[0-9]", "да", "нет", "\\d", "(?:)", "ä", "é+", "(é)", "[éè]"];
        for a in arms {
            for b in arms {
                for c in arms.iter().copied().chain(std::iter::once("")) {
                    let ps = if c.is_empty() { format!("{}|{}", a, b) } else { format!("{}|{}|{}", a, b, c) };
                    for (k, fl) in ["", "i", "u", "iv"].iter().enumerate() {
                        idx += 1;
                        let h = fnv64(format!("alt|{}|{}", ps, fl).as_bytes());
                        if !cfg.mine(h) || skip(idx) {
                            continue;
                        }
                        // quick tier: every triple under one seed-rotated flag set, all pairs under all four
                        if cfg.quick() && !c.is_empty() && (k as u64 + cfg.seed + fnv64(ps.as_bytes())) % 4 != 0 {
                            continue;
                        }
                        let p = cps(&ps);
                        let desc = J::obj().set("pattern", ps.as_str()).set("pattern_cps", J::Arr(p.iter().map(|&c| J::from(c)).collect())).set("flags", *fl).set("source", "literal_alternations");
                        if idx % 64 == 0 {
                            rep.begin(idx, &desc);
                        }
                        rep.inc("programs");
                        rep.inc("source.literal_alternations");
                        let out = run_case(rep, &desc, &p, Flags::from_str(fl), false);
                        rep.inc(&format!("outcome.{}", out));
                    }
                }
            }
        }
    }
    // 1f. numbers at every integer width; every arrangement of up to three groups in contexts that
    // are emitted backwards
    for ps in integer_width_patterns().into_iter().chain(group_arrangement_patterns()) {
        for fl in ["", "u", "iv"] {
            idx += 1;
            let h = fnv64(format!("iw|{}|{}", ps, fl).as_bytes());
            if !cfg.mine(h) || skip(idx) {
                continue;
            }
            let p = cps(&ps);
            let desc = J::obj().set("pattern", ps.as_str()).set("pattern_cps", J::Arr(p.iter().map(|&c| J::from(c)).collect())).set("flags", fl).set("source", "integer_widths_and_group_arrangements");
            if idx % 64 == 0 {
                rep.begin(idx, &desc);
            }
            rep.inc("programs");
            rep.inc("source.integer_widths_and_group_arrangements");
            let out = run_case(rep, &desc, &p, Flags::from_str(fl), idx % 2 == 0);
            rep.inc(&format!("outcome.{}", out));
        }
    }
    // 2. truncated prefixes and single edits of corpus patterns, all flag sets of {none,u,v} x {none,i}
    let flagsets = ["", "u", "v", "i", "iu", "iv", "ms"];
    let mut rng = Rng::new(cfg.seed ^ 0x07);
    for (ci, pat) in CORPUS.iter().enumerate() {
        let full = cps(pat);
        for cut in 0..=full.len() {
            for fl in &flagsets {
                idx += 1;
                let h = fnv64(format!("{}|{}|{}", ci, cut, fl).as_bytes());
                if !cfg.mine(h) || skip(idx) {
                    continue;
                }
                let p = &full[..cut];
                let desc = J::obj().set("pattern", engine::cps_to_string_lossy(p)).set("pattern_cps", J::Arr(p.iter().map(|&c| J::from(c)).collect())).set("flags", *fl).set("source", "truncated_corpus");
                if idx % 64 == 0 {
                    rep.begin(idx, &desc);
                }
                rep.inc("programs");
                let out = run_case(rep, &desc, p, Flags::from_str(fl), cut % 2 == 1);
                rep.inc(&format!("outcome.{}", out));
            }
        }
    }
    // 3. random mutations / splices and raw random code point sequences (surrogates included)
    let n_random = cfg.scaled(if cfg.quick() { 60_000 } else { 3_000_000 });
    let syntax: Vec<u32> = cps("\\()[]{}?*+|^$.-,:=!<>&kpPuqxcdwsbB0123456789aZ_");
    for _ in 0..n_random {
        idx += 1;
        let kind = rng.below(3);
        let mut p: Vec<u32> = Vec::new();
        match kind {
            0 => {
                // mutate a corpus pattern
                p = cps(CORPUS[rng.below(CORPUS.len())]);
                for _ in 0..rng.range(1, 4) {
                    let pos = rng.below(p.len() + 1);
                    match rng.below(3) {
                        0 if !p.is_empty() => {
                            p.remove(pos.min(p.len() - 1));
                        }
                        1 => p.insert(pos, *rng.pick(&syntax)),
                        _ => {
                            let other = cps(CORPUS[rng.below(CORPUS.len())]);
                            let a = rng.below(other.len());
                            let b = (a + rng.range(1, 6)).min(other.len());
                            for (k, c) in other[a..b].iter().enumerate() {
                                p.insert((pos + k).min(p.len()), *c);
                            }
                        }
                    }
                }
            }
            1 => {
                // syntax soup
                for _ in 0..rng.range(1, 24) {
                    p.push(*rng.pick(&syntax));
                }
            }
            _ => {
                // raw code points in 0..=0x10FFFF including surrogates
                for _ in 0..rng.range(1, 12) {
                    let c = match rng.below(6) {
                        0 => rng.below(0x80) as u32,
                        1 => 0xD800 + rng.below(0x800) as u32,
                        2 => 0x10FFFF - rng.below(3) as u32,
                        3 => *rng.pick(&syntax),
                        4 => rng.below(0x110000) as u32,
                        _ => 0x10000 + rng.below(0x1000) as u32,
                    };
                    p.push(c);
                }
            }
        }
        let fl = *rng.pick(&flagsets);
        let no_opt = rng.chance(1, 4);
        let h = fnv64(format!("{:?}|{}", p, fl).as_bytes());
        if !cfg.mine(h) || skip(idx) {
            continue;
        }
        let desc = J::obj().set("pattern", engine::cps_to_string_lossy(&p)).set("pattern_cps", J::Arr(p.iter().map(|&c| J::from(c)).collect())).set("flags", fl).set("source", ["mutated_corpus", "syntax_soup", "raw_code_points"][kind]);
        if idx % 128 == 0 {
            rep.begin(idx, &desc);
        }
        rep.inc("programs");
        rep.inc(&format!("source.{}", ["mutated_corpus", "syntax_soup", "raw_code_points"][kind]));
        let out = run_case(rep, &desc, &p, Flags::from_str(fl), no_opt);
        rep.inc(&format!("outcome.{}", out));
        if rep.samples.len() < rep.max_samples && idx % 5003 == 0 {
            rep.sample(desc.clone().set("outcome", out));
        }
    }
}
