//! C19: a compiled Regex is immutable and safe to share across threads.
//! Static: Regex, Match, Error are Send + Sync (this file does not compile otherwise).
//! Dynamic: N threads share one &Regex (and clones, and an Arc in a static) and run shuffled
//! queries, including interleaved live iterators; every result must equal the result computed
//! alone on a freshly compiled Regex. The hook injects yields inside searches.

use super::common::*;
use crate::engine::{self, Api, EMatch};
use crate::esref::Flags;
use crate::json::J;
use crate::report::{Cfg, Report};
use crate::rng::{fnv64, Rng};
use std::sync::{Arc, OnceLock};

fn assert_send_sync<T: Send + Sync>() {}

#[allow(dead_code)]
fn static_auto_traits() {
    assert_send_sync::<regress::Regex>();
    assert_send_sync::<regress::Match>();
    assert_send_sync::<regress::Error>();
    assert_send_sync::<regress::Flags>();
}

static SHARED: OnceLock<Arc<regress::Regex>> = OnceLock::new();

#[derive(Clone, Debug)]
struct Query {
    hay: usize,
    start: usize,
    api: Api,
    /// how many matches to take before dropping the iterator (usize::MAX = all)
    take: usize,
}

fn run_query(re: &regress::Regex, hays: &[String], q: &Query) -> u64 {
    let hay = &hays[q.hay];
    let mut out: Vec<EMatch> = Vec::new();
    match q.api {
        Api::Utf8 => {
            for m in re.find_from(hay, q.start).take(q.take) {
                out.push(EMatch::from(&m));
            }
        }
        Api::Ascii => {
            for m in re.find_from_ascii(hay, q.start).take(q.take) {
                out.push(EMatch::from(&m));
            }
        }
        #[cfg(feature = "re-pikevm")]
        Api::Pike => {
            for m in regress::backends::find::<regress::backends::PikeVMExecutor>(re, hay, q.start).take(q.take) {
                out.push(EMatch::from(&m));
            }
        }
        _ => {}
    }
    fnv64(engine::show_matches(&out).as_bytes())
}

/// Two live iterators on the same Regex advanced alternately.
fn run_interleaved(re: &regress::Regex, hays: &[String], a: &Query, b: &Query) -> (u64, u64) {
    let mut ia = re.find_from(&hays[a.hay], a.start);
    let mut ib = re.find_from(&hays[b.hay], b.start);
    let (mut oa, mut ob) = (Vec::new(), Vec::new());
    let (mut da, mut db) = (false, false);
    while !(da && db) {
        if !da {
            match ia.next() {
                Some(m) if oa.len() < a.take => oa.push(EMatch::from(&m)),
                _ => da = true,
            }
        }
        if !db {
            match ib.next() {
                Some(m) if ob.len() < b.take => ob.push(EMatch::from(&m)),
                _ => db = true,
            }
        }
    }
    (fnv64(engine::show_matches(&oa).as_bytes()), fnv64(engine::show_matches(&ob).as_bytes()))
}

/// The very first searches of the process, made concurrently: anything built lazily on first use
/// (a table, a cache) is being built while other threads already rely on it. Every runner process
/// starts with this, before it has searched anything; the results are compared with the same
/// queries made sequentially afterwards.
fn cold_start(rep: &mut Report) {
    let battery: Vec<(&str, &str, &str)> = vec![
        ("(\u{FF21})\\1", "i", "\u{FF21}\u{FF41}"), ("(.)\\1", "iu", "шШ"), ("(?<=(.)\\1)", "i", "éÉ"), ("[à-þ]+", "i", "ÀÉÞ"), ("\\b.\\b", "iu", "\u{17F}"), ("\\p{Lu}\\P{Lu}", "u", "Éé"),
        ("[\\q{éa|b}]+", "iv", "ÉAb"), ("\\w+", "iu", "\u{212A}\u{17F}s"), ("(ǆ)\\1", "i", "ǆǅ"), ("[^\\W]", "iv", "\u{17F}"), ("(σ)\\1", "i", "σς"), ("\\p{Script=Greek}+", "u", "αβγ"),
    ];
    let battery: Arc<Vec<(String, Flags, String)>> = Arc::new(battery.into_iter().map(|(p, f, h)| (p.to_string(), Flags::from_str(f), h.to_string())).collect());
    let nthreads = 8;
    let barrier = Arc::new(std::sync::Barrier::new(nthreads));
    let run_all = |battery: &Vec<(String, Flags, String)>, rotate: usize| -> Vec<(usize, u64)> {
        let mut out = Vec::new();
        for k in 0..battery.len() {
            let i = (k + rotate) % battery.len();
            let (p, f, h) = &battery[i];
            let r = match regress::Regex::from_unicode(p.chars().map(|c| c as u32), engine::rflags(*f, false)) {
                Ok(re) => {
                    let ms: Vec<EMatch> = re.find_iter(h).take(50).map(|m| EMatch::from(&m)).collect();
                    fnv64(engine::show_matches(&ms).as_bytes())
                }
                Err(_) => 0,
            };
            out.push((i, r));
        }
        out
    };
    let handles: Vec<_> = (0..nthreads)
        .map(|t| {
            let (battery, barrier) = (battery.clone(), barrier.clone());
            std::thread::spawn(move || {
                barrier.wait();
                run_all(&battery, if t % 2 == 0 { 0 } else { t })
            })
        })
        .collect();
    let results: Vec<Vec<(usize, u64)>> = handles.into_iter().filter_map(|h| h.join().ok()).collect();
    let sequential = run_all(&battery, 0);
    for (t, res) in results.iter().enumerate() {
        for (i, got) in res {
            rep.inc("cold_start_queries");
            rep.eval(fnv64(format!("cold|{}|{}", t, i).as_bytes()), true);
            let want = sequential.iter().find(|x| x.0 == *i).map(|x| x.1).unwrap_or(0);
            if *got != want {
                rep.violation(violation("C19", "a query made concurrently as one of the very first searches of the process differs from the same query made sequentially afterwards", J::obj().set("pattern", battery[*i].0.as_str()).set("flags", battery[*i].1.to_string()).set("haystack", battery[*i].2.as_str()).set("thread", t).set("check", "c19"), format!("{:x}", got), format!("{:x}", want)));
                return;
            }
        }
    }
    if results.len() != nthreads {
        rep.violation(violation("C19", "a thread of the cold-start battery panicked", J::obj().set("check", "c19"), "panic".into(), "no panic".into()));
    }
}

pub fn run(cfg: &Cfg, rep: &mut Report) {
    static_auto_traits();
    rep.inc("static_send_sync_assertions");
    if cfg.opt("small").is_none() && cfg.replay.is_none() {
        cold_start(rep);
    }
    let fl = |s: &str| Flags::from_str(s);
    let pats: Vec<(&str, Flags)> = vec![
        ("(a+)+b", fl("")), ("(?<=(\\w)\\1)x", fl("i")), ("(a|ab)(c|bcd)(d*)", fl("")), ("\\b\\w+\\b", fl("")), ("(?:(a)|b)*\\1", fl("")), ("[\\q{ab|a}]+", fl("v")), ("k+s", fl("iu")), ("(?=(a))\\1|é", fl("")), ("(x*)*y", fl("")), ("^(?:a{1,3}){2}$", fl("m")),
        // classes that compile to the general bracket instruction (non-ASCII / inverted), looked up
        // with different outcomes by different threads
        ("[α-ω]+", fl("")), ("[^a-y]+", fl("")), ("\\P{Lu}{2,}", fl("u")), ("[é-ü]*[^é-ü]", fl("i")), ("(?<=[α-ω])[Α-Ω]|[^α-ωΑ-Ω ]+", fl("")),
        // match-time canonicalization over characters whose code points agree in their low 8 or 16
        // bits (a memo or scratch table keyed on a truncated code point would confuse them)
        ("(.)\\1", fl("iu")), ("(?<=(.)\\1)|(\\S)\\2", fl("i")), ("\\b.\\B", fl("iu")),
    ];
    // Patterns near the engine's structural limits (nesting depth, group and loop counts): any
    // bookkeeping of those that is not per search shows up only when searches overlap.
    let deep_ahead = format!("{}a{}", "(?=a".repeat(40), ")".repeat(40));
    let deep_behind = format!("{}a{}b", "(?<=a".repeat(40), ")".repeat(40));
    let deep_mixed = format!("{}a{}", "(?=a(?<=a".repeat(20), "))".repeat(20));
    // (alternations, so that no haystack makes them backtrack exponentially)
    let many_groups = (0..300).map(|i| format!("(a{}{})", (b'a' + (i % 26) as u8) as char, (b'a' + (i / 26) as u8) as char)).collect::<Vec<_>>().join("|");
    let deep_groups = format!("{}a{}b", "(?:(".repeat(60), "))".repeat(60));
    let many_loops = (2..200).map(|i| format!("a{{{}}}b", i)).collect::<Vec<_>>().join("|");
    let mut pats = pats;
    let heavy_from = pats.len();
    if cfg.opt("small").is_some() {
        // Miri: one pattern per process (16 processes)
        pats.truncate(16);
    } else {
        for p in [&deep_ahead, &deep_behind, &deep_mixed, &many_groups, &deep_groups, &many_loops] {
            pats.push((p.as_str(), fl("")));
        }
    }
    let _ = heavy_from;
    let hays: Vec<String> = vec!["aaaaab".into(), "aabbxx AAx".into(), "abcd abcbcd".into(), "the quick brown fox".into(), "aab".into(), "ababa".into(), "KKs \u{212A}\u{17F}".into(), "aé".into(), "xxxxxxxxxx".into(), "aaa\naaaa".into(), "".into(), "ééé".into(), "αβγδεζηθικλμνξοπρστυφχψω".into(), "ΑΒΓΔΕΖΗΘΙΚΛΜΝΞΟΠΡΣΤΥΦΧΨΩ".into(), "αΒγΔεΖηΘ zZ éÉüÜ".into(), "zzzzzzzzzzzzzzzzzzzzzzzzzzzzzzzz".into(),
        // U+0428/0448 (Cyrillic sha) vs U+10428/10400 (Deseret): equal low 16 bits; a / U+0161 / U+0461: equal low 8 bits
        "шШ 𐐨𐐀 ш𐐨 Ш𐐀".into(), "𐐨𐐀ш𐐨шШ".into(), "aA šŠ ѡѠ aš šѡ Aѡ".into(), "ѡѠaAšŠ".into(), "𐐀ш".into(), "шШ".into(), "𐐨𐐀".into(), "aaaab".into(), format!("{}b", "a".repeat(48)),
        // pairs that are equivalent under one of the two case relations only (the relation is chosen at match time for backreferences)
        "sſ kK ſs Kk ßẞ".into(), "ſs".into(), "Kk".into()];
    let mut hays = hays;
    if cfg.opt("small").is_some() {
        hays.truncate(19);
    }
    let threads_list: Vec<usize> = if cfg.opt("small").is_some() { vec![2] } else { vec![2, 4, 16] };
    let n_queries = cfg.opt_usize("queries", if cfg.quick() { 400 } else { 4000 });
    let mut rng = Rng::new(cfg.seed ^ 0x19);
    let mut total_yield_schedules = 0u64;
    for (pi, (pat, flags)) in pats.iter().enumerate() {
        if !cfg.mine(pi as u64) {
            continue;
        }
        if let Some(r) = cfg.resume_after {
            if pi as u64 + 1 <= r {
                continue;
            }
        }
        rep.begin(pi as u64 + 1, &J::obj().set("pattern", *pat).set("flags", flags.to_string()));
        let compile = || regress::Regex::from_unicode(pat.chars().map(|c| c as u32), engine::rflags(*flags, false)).expect("fixed pattern compiles");
        // the multiset of queries
        let mut queries: Vec<Query> = Vec::new();
        for _ in 0..n_queries {
            let hay = rng.below(hays.len());
            let bs = crate::gen::boundaries(&hays[hay]);
            let api = match rng.below(3) {
                0 => Api::Utf8,
                1 => Api::Pike,
                _ => {
                    if hays[hay].is_ascii() {
                        Api::Ascii
                    } else {
                        Api::Utf8
                    }
                }
            };
            queries.push(Query { hay, start: *rng.pick(&bs), api, take: if rng.chance(1, 4) { rng.below(2) } else { usize::MAX } });
        }
        // sequential specification: each query alone on a freshly compiled Regex
        let expected: Vec<u64> = queries.iter().map(|q| run_query(&compile(), &hays, q)).collect();
        // one thread, shuffled order, one Regex (a search never depends on what was searched before)
        let re = compile();
        let mut order: Vec<usize> = (0..queries.len()).collect();
        rng.shuffle(&mut order);
        for &i in &order {
            let got = run_query(&re, &hays, &queries[i]);
            rep.eval(fnv64(format!("seq|{}|{}", pi, i).as_bytes()), true);
            if got != expected[i] {
                rep.violation(violation("C19", "a query's result depends on earlier queries on the same Regex (single thread)", J::obj().set("pattern", *pat).set("flags", flags.to_string()).set("query", format!("{:?}", queries[i])).set("check", "c19"), format!("{:x}", got), format!("{:x}", expected[i])));
                break;
            }
        }
        let shared = SHARED.get_or_init(|| Arc::new(compile()));
        let _ = shared;
        for &nthreads in &threads_list {
            let re = Arc::new(compile());
            let re_clone_source = compile();
            let hays_arc = Arc::new(hays.clone());
            let queries_arc = Arc::new(queries.clone());
            let mut handles = Vec::new();
            for t in 0..nthreads {
                let re = re.clone();
                let own = re_clone_source.clone();
                let hays = hays_arc.clone();
                let queries = queries_arc.clone();
                let seed = cfg.seed ^ ((pi as u64) << 8) ^ t as u64;
                let yield_every = [0u64, 1, 3, 7, 50][(t + pi) % 5];
                handles.push(std::thread::spawn(move || {
                    #[cfg(feature = "hooks")]
                    regress::verif::set_yield_every(yield_every);
                    let _ = yield_every;
                    let mut rng = Rng::new(seed);
                    let mut order: Vec<usize> = (0..queries.len()).filter(|i| i % nthreads == t || rng.chance(1, 3)).collect();
                    rng.shuffle(&mut order);
                    let mut results: Vec<(usize, u64)> = Vec::new();
                    let mut k = 0;
                    while k < order.len() {
                        let i = order[k];
                        // alternate between the shared Regex, this thread's clone, and interleaved iterators
                        match k % 3 {
                            0 => results.push((i, run_query(&re, &hays, &queries[i]))),
                            1 => results.push((i, run_query(&own, &hays, &queries[i]))),
                            _ => {
                                if k + 1 < order.len() && queries[i].api == Api::Utf8 && queries[order[k + 1]].api == Api::Utf8 {
                                    let j = order[k + 1];
                                    let (a, b) = run_interleaved(&re, &hays, &queries[i], &queries[j]);
                                    results.push((i, a));
                                    results.push((j, b));
                                    k += 1;
                                } else {
                                    results.push((i, run_query(&re, &hays, &queries[i])));
                                }
                            }
                        }
                        k += 1;
                    }
                    #[cfg(feature = "hooks")]
                    regress::verif::set_yield_every(0);
                    results
                }));
            }
            for (t, h) in handles.into_iter().enumerate() {
                match h.join() {
                    Ok(results) => {
                        for (i, got) in results {
                            rep.eval(fnv64(format!("thr|{}|{}|{}|{}", pi, nthreads, t, i).as_bytes()), true);
                            rep.inc("concurrent_queries");
                            if got != expected[i] {
                                rep.violation(violation(
                                    "C19",
                                    "a query run concurrently on a shared Regex returned a different result than alone",
                                    J::obj().set("pattern", *pat).set("flags", flags.to_string()).set("threads", nthreads).set("thread", t).set("query", format!("{:?}", queries[i])).set("haystack", hays[queries[i].hay].as_str()).set("check", "c19"),
                                    format!("{:x}", got),
                                    format!("{:x}", expected[i]),
                                ));
                                return;
                            }
                        }
                    }
                    Err(_) => {
                        rep.violation(violation("C19", "a searching thread panicked", J::obj().set("pattern", *pat).set("threads", nthreads).set("check", "c19"), "panic".into(), "no panic".into()));
                        return;
                    }
                }
                total_yield_schedules += 1;
            }
            rep.inc(&format!("thread_groups.{}", nthreads));
        }
        // ---- the convenience entry points on a reused text buffer, and clone_from
        // A result remembered inside the Regex and keyed on the haystack's identity (address,
        // length, a partial checksum) would survive the buffer being rewritten in place: lines of
        // equal length that differ only in the middle are written into one String in turn, asked
        // through find / find_iter / replace / replace_all, on one thread and on four.
        if cfg.opt("small").is_none() {
            let pad_l = "#".repeat(40);
            let pad_r = "~".repeat(40);
            let lines: Vec<String> = hays.iter().filter(|h| h.len() <= 32).map(|h| format!("{}{}{}{}", pad_l, h, " ".repeat(32 - h.len()), pad_r)).collect();
            let observe = |re: &regress::Regex, text: &str| -> u64 {
                let a = re.find(text).map(|m| EMatch::from(&m));
                let b: Vec<EMatch> = re.find_iter(text).take(50).map(|m| EMatch::from(&m)).collect();
                let c = re.replace(text, "<$0|$1>");
                let d = re.replace_all(text, "[$0]");
                let e = if text.is_ascii() { re.find_ascii(text).map(|m| EMatch::from(&m)) } else { None };
                fnv64(format!("{:?}|{}|{}|{}|{:?}", a.map(|m| m.show()), engine::show_matches(&b), c, d, e.map(|m| m.show())).as_bytes())
            };
            let want: Vec<u64> = lines.iter().map(|l| observe(&compile(), &l.clone())).collect();
            let re = compile();
            let mut buf = String::with_capacity(128);
            for round in 0..3 {
                for (i, l) in lines.iter().enumerate() {
                    buf.clear();
                    buf.push_str(l);
                    let got = observe(&re, &buf);
                    rep.inc("reused_buffer_queries");
                    rep.eval(fnv64(format!("buf|{}|{}|{}", pi, round, i).as_bytes()), true);
                    if got != want[i] {
                        rep.violation(violation("C19", "find / find_iter / replace on a rewritten text buffer returned what an earlier search of that buffer returned", J::obj().set("pattern", *pat).set("flags", flags.to_string()).set("haystack", l.as_str()).set("check", "c19"), format!("{:x}", got), format!("{:x}", want[i])));
                        break;
                    }
                }
            }
            let re = Arc::new(compile());
            let lines_arc = Arc::new(lines.clone());
            let want_arc = Arc::new(want.clone());
            let hs: Vec<_> = (0..4)
                .map(|t| {
                    let (re, lines, want) = (re.clone(), lines_arc.clone(), want_arc.clone());
                    std::thread::spawn(move || {
                        let mut buf = String::with_capacity(128);
                        let mut bad = None;
                        for k in 0..lines.len() * 2 {
                            let i = (k * 7 + t * 3) % lines.len();
                            buf.clear();
                            buf.push_str(&lines[i]);
                            let a = re.find(&buf).map(|m| EMatch::from(&m));
                            let d = re.replace_all(&buf, "[$0]");
                            let b: Vec<EMatch> = re.find_iter(&buf).take(50).map(|m| EMatch::from(&m)).collect();
                            let c = re.replace(&buf, "<$0|$1>");
                            let e = if buf.is_ascii() { re.find_ascii(&buf).map(|m| EMatch::from(&m)) } else { None };
                            let got = fnv64(format!("{:?}|{}|{}|{}|{:?}", a.map(|m| m.show()), engine::show_matches(&b), c, d, e.map(|m| m.show())).as_bytes());
                            if got != want[i] {
                                bad = Some(i);
                                break;
                            }
                        }
                        bad
                    })
                })
                .collect();
            for h in hs {
                if let Ok(Some(i)) = h.join() {
                    rep.violation(violation("C19", "find / replace on a per-thread rewritten buffer through a shared Regex differs from the result alone", J::obj().set("pattern", *pat).set("flags", flags.to_string()).set("haystack", lines[i].as_str()).set("check", "c19"), "differs".into(), "equal".into()));
                }
            }
            // clone_from over a Regex that was compiled differently must behave like the source
            for other in ["", "i", "iu", "v", "s"] {
                let of = fl(other);
                if of == *flags {
                    continue;
                }
                let Ok(mut dst) = regress::Regex::from_unicode("(x)|y".chars().map(|c| c as u32), engine::rflags(of, false)) else { continue };
                let Ok(mut dst2) = regress::Regex::from_unicode(pat.chars().map(|c| c as u32), engine::rflags(of, false)) else { continue };
                let src = compile();
                dst.clone_from(&src);
                dst2.clone_from(&src);
                for (i, q) in queries.iter().enumerate().take(120) {
                    rep.inc("clone_from_queries");
                    for d in [&dst, &dst2] {
                        if run_query(d, &hays, q) != expected[i] {
                            rep.violation(violation("C19", "a Regex made with clone_from behaves differently from its source", J::obj().set("pattern", *pat).set("flags", flags.to_string()).set("destination_flags", other).set("query", format!("{:?}", q)).set("haystack", hays[q.hay].as_str()).set("check", "c19"), "differs".into(), "equal".into()));
                            break;
                        }
                    }
                }
            }
        }
        // after everything that ran in this process: each query alone on a fresh Regex once more
        // (process-wide state that outlives a Regex would make this differ from the first pass)
        for (i, q) in queries.iter().enumerate().rev() {
            if cfg.opt("small").is_some() {
                break; // compiling is the slow part under Miri, which is here for data races
            }
            let got = run_query(&compile(), &hays, q);
            rep.inc("fresh_rechecks");
            if got != expected[i] {
                rep.violation(violation("C19", "a query alone on a freshly compiled Regex gives a different result after other searches ran in the process", J::obj().set("pattern", *pat).set("flags", flags.to_string()).set("query", format!("{:?}", q)).set("haystack", hays[q.hay].as_str()).set("check", "c19"), format!("{:x}", got), format!("{:x}", expected[i])));
                break;
            }
        }
        if rep.samples.len() < rep.max_samples {
            rep.sample(J::obj().set("pattern", *pat).set("flags", flags.to_string()).set("queries", queries.len()).set("thread_counts", J::Arr(threads_list.iter().map(|&t| J::from(t)).collect())).set("example_query", format!("{:?}", queries[0])));
        }
    }
    rep.add("thread_runs_with_injected_yields", total_yield_schedules);
    let _ = case_json;
}
