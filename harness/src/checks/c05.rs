//! C05: every search terminates with bounded backtracking state. Restated as bounded progress in
//! logical steps: steps(engine) <= A + B * steps(reference ordered search), and the backtrack
//! store never exceeds the number of steps taken.

use super::common::*;
use super::framework::*;
use crate::engine::{self, Api, CpIndex, Guarded};
use crate::esref::{self, Flags, RefLimits, RefOutcome};
use crate::gen::GenCfg;
use crate::report::{Cfg, Report};
use crate::rng::Rng;

const A: u64 = 10_000;
const B: u64 = 1_000;
const REF_STEPS: u64 = 20_000;
/// Fuel is the bound itself for the largest admissible reference cost, so exhausting it is a
/// violation whenever the reference finished within REF_STEPS.
const FUEL: u64 = A + B * REF_STEPS;

pub struct C05;

pub struct C05Prep {
    pat: esref::Pattern,
    opt: regress::Regex,
    noopt: regress::Regex,
}

impl PCheck for C05 {
    type Prepared = C05Prep;
    fn name(&self) -> &'static str {
        "c05"
    }
    fn prepare(&self, pat: &[u32], flags: Flags, _rep: Option<&mut Report>) -> Prep<C05Prep> {
        let Ok(p) = esref::parse(pat, flags) else { return Prep::Skip("reference_rejects") };
        let flags = Flags { n: false, ..flags };
        let a = engine::compile(pat, flags, false);
        let b = engine::compile(pat, flags, true);
        match (a, b) {
            (Guarded::Ok(Ok(opt)), Guarded::Ok(Ok(noopt))) => Prep::Ready(C05Prep { pat: p, opt, noopt }),
            (Guarded::Ok(_), Guarded::Ok(_)) => Prep::Skip("compile_rejected"),
            (a, b) => Prep::Violated { property: "C07", what: "compile did not return Ok or Err".into(), observed: format!("{} / {}", a.describe_short(), b.describe_short()), expected: "Ok or Err".into() },
        }
    }
    fn case(&self, p: &C05Prep, hay: &str, start: usize, mut rep: Option<&mut Report>) -> Verdict {
        let idx = CpIndex::new(hay);
        let Some(ci) = idx.cp_of_byte(start) else { return Verdict::Inconclusive("start_not_on_boundary") };
        let cps = engine::to_cps(hay);
        let (ro, st) = esref::exec(&p.pat, &cps, ci, RefLimits { max_steps: REF_STEPS, max_depth: 20_000 });
        match ro {
            RefOutcome::Match(_) | RefOutcome::NoMatch => {}
            RefOutcome::Inconclusive(_) => return Verdict::Inconclusive("ref_budget"),
            RefOutcome::Unsupported(_) => return Verdict::Inconclusive("ref_unsupported"),
        }
        let empty_rule = st.events.get("empty_iteration_rejected").copied().unwrap_or(0) > 0;
        let bound = A + B * st.steps;
        #[cfg(feature = "hooks")]
        for (name, re, api) in [("backtrack/opt", &p.opt, Api::Utf8), ("backtrack/no_opt", &p.noopt, Api::Utf8), ("pikevm/opt", &p.opt, Api::Pike), ("pikevm/no_opt", &p.noopt, Api::Pike)] {
            let saved = engine::hooks::take();
            let r = engine::find_first(re, hay, start, api, FUEL);
            let c = engine::hooks::take();
            // keep the running profile for the evidence
            if let Some(rr) = rep.as_deref_mut() {
                crate::report::absorb_hooks(rr, &c);
                crate::report::absorb_hooks(rr, &saved);
            }
            let steps = c.steps();
            let store = c.max_bts.max(c.max_pike_states) as u64;
            match r {
                Guarded::Fuel => {
                    return Verdict::Violated {
                        property: "C05",
                        what: format!("{}: the search did not finish within the step bound", name),
                        observed: format!("more than {} engine steps (backtrack store high-water {})", FUEL, store),
                        expected: format!("at most {} = {} + {} x {} reference steps", bound, A, B, st.steps),
                    }
                }
                Guarded::Panic(m) => return Verdict::Violated { property: "C06", what: format!("{} panicked", name), observed: m, expected: "no panic".into() },
                Guarded::Ok(_) => {}
            }
            if steps > bound {
                return Verdict::Violated {
                    property: "C05",
                    what: format!("{}: engine steps exceed the bound tied to the reference ordered search", name),
                    observed: format!("{} engine steps", steps),
                    expected: format!("at most {} = {} + {} x {} reference steps", bound, A, B, st.steps),
                };
            }
            // One instruction can push several records (EnterLoop pushes up to 3, a successful
            // lookaround one per enclosed group), so the store is bounded by a small multiple of
            // the steps, not by the steps themselves.
            if store > (3 + p.pat.ngroups as u64) * (steps + 1) {
                return Verdict::Violated {
                    property: "C05",
                    what: format!("{}: backtracking state is larger than the number of steps taken", name),
                    observed: format!("store high-water {} with {} steps", store, steps),
                    expected: "store <= (3 + groups) x (steps + 1)".into(),
                };
            }
            if let Some(rr) = rep.as_deref_mut() {
                if st.steps > 0 {
                    rr.max("max_step_ratio_x1000", steps * 1000 / st.steps.max(1));
                }
                rr.max("max_engine_steps", steps);
                rr.max("max_store", store);
            }
        }
        if let Some(rr) = rep.as_deref_mut() {
            if empty_rule {
                rr.inc("cases_where_the_empty_iteration_rule_fired");
            }
            rr.max("max_reference_steps", st.steps);
        }
        Verdict::Held { nontrivial: p.pat.features.quantifiers > 0 && (empty_rule || st.steps > 10) }
    }
}

/// Exhaustive nestings of quantifiers around bodies that can match the empty string.
fn nested_quantifier_scope(depth: usize) -> Vec<String> {
    let quants = ["*", "+", "?", "{0}", "{1}", "{2}", "{0,1}", "{1,2}", "{2,}", "*?", "+?", "??", "{1,2}?", "{2,}?"];
    let bodies = ["a", "a?", "a*", "(?:)", "(a)", "(a?)", "\\1", "^", "(?=a)", "a|", "|a", "(a|)", "\\b", "(?<=a)"];
    let mut level: Vec<String> = bodies.iter().map(|s| s.to_string()).collect();
    let mut all: Vec<String> = Vec::new();
    for d in 0..depth {
        let mut next = Vec::new();
        for b in &level {
            for q in &quants {
                next.push(format!("(?:{}){}", b, q));
                if d == 0 {
                    next.push(format!("({}){}", b, q));
                }
            }
        }
        all.extend(next.iter().cloned());
        level = next;
    }
    let mut out = Vec::new();
    for p in &all {
        out.push(p.clone());
        out.push(format!("{}b", p));
        out.push(format!("(?<={})b", p));
        out.push(format!("(a)?{}\\1", p));
    }
    out
}

fn tweak(g: &mut GenCfg, rng: &mut Rng) {
    g.max_depth = rng.range(2, 5);
    g.long_literals = false;
    g.big_counts = rng.chance(1, 3);
}

pub fn run(cfg: &Cfg, rep: &mut Report) {
    let fl = |s: &str| Flags::from_str(s);
    let depth = if cfg.quick() { 2 } else { 3 };
    let scope = nested_quantifier_scope(depth);
    rep.add("nested_quantifier_patterns", scope.len() as u64);
    rep.max("nesting_depth", depth as u64);
    let mut fixed: Vec<(String, Flags)> = scope.into_iter().map(|p| (p, fl(""))).collect();
    fixed.extend(super::diff::fixed_corpus());
    // a class is a set: the same string reached through two operands (or two case variants of it
    // under i) is one alternative, so a loop over such a class must not branch on it
    for (p, f) in [
        ("(?:[\\q{ab}\\q{ab}])*c", "v"), ("(?:[\\q{ab}[\\q{ab}]])*c", "v"), ("(?:[\\q{ab|ba}[\\q{ab}]\\q{ab}])+d$", "v"), ("(?:[\\q{ab}\\q{AB}])*c", "iv"), ("(?:[\\q{ab|AB}])*c", "iv"), ("(?:[\\q{ab}\\q{aB}\\q{Ab}])*c", "iv"),
        ("(?:[\\q{ab}&&[\\q{ab}\\q{ab}]])*c", "v"), ("(?:[[\\q{ab}]--c][\\q{ab}]?)*c", "v"), ("(?:[a\\q{a}])*c", "v"), ("(?:[\\q{a|b}ab])*c", "v"),
    ] {
        fixed.push((p.to_string(), fl(f)));
    }
    let spec = StreamSpec { n_struct: cfg.scaled(if cfg.quick() { 6_000 } else { 200_000 }), enum_nodes: if cfg.quick() { 0 } else { 3 }, enum_flags: vec![fl(""), fl("u")], tweak, fixed, templates: true };
    struct H;
    let _ = H;
    let opts = DriveOpts { budget: 31, n_long: 1, n_plant: 0, ascii_only: false, sample_every: 499 };
    drive(&C05Hay, cfg, rep, &spec, &opts);
}

/// C05 with its own haystack universe for the enumerated scope: all strings over {a,b} up to
/// length 3 (quick) / 4 (thorough).
pub struct C05Hay;
impl PCheck for C05Hay {
    type Prepared = C05Prep;
    fn name(&self) -> &'static str {
        "c05"
    }
    fn prepare(&self, pat: &[u32], flags: Flags, rep: Option<&mut Report>) -> Prep<C05Prep> {
        C05.prepare(pat, flags, rep)
    }
    fn case(&self, p: &C05Prep, hay: &str, start: usize, rep: Option<&mut Report>) -> Verdict {
        C05.case(p, hay, start, rep)
    }
    fn starts(&self, _hay: &str) -> Vec<usize> {
        vec![0]
    }
    fn haystacks(&self, p: &Program, rng: &mut Rng) -> Option<Vec<String>> {
        if p.source == "fixed" {
            let mut v = crate::gen::all_strings(&['a' as u32, 'b' as u32], 4);
            v.push("aaaaaaaaaaaaaaaaaaaaaaaa".into());
            v.push("aaaaaaaaaaaaaaaaaaaaaaab".into());
            v.push(format!("{}d", "ab".repeat(22)));
            v.push(format!("{}d", "aB".repeat(22)));
            let _ = rng;
            Some(v)
        } else {
            None
        }
    }
}
