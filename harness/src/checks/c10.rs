//! C10: case-insensitive matching is simple case folding (u/v) or legacy upper-casing.
//! Sweeps over the whole code space; the oracle is uniref's canonical equivalence.

use super::common::*;
use crate::engine::{self, Api, Guarded};
use crate::esref::Flags;
use crate::json::J;
use crate::rangeset::{RangeSet, MAX_CP};
use crate::report::{Cfg, Report};
use crate::rng::fnv64;
use crate::uniref::case_data;

const FUEL: u64 = 400_000_000;

fn all_scalars() -> String {
    let mut s = String::with_capacity(4_500_000);
    for c in 0..=MAX_CP {
        if let Some(ch) = char::from_u32(c) {
            s.push(ch);
        }
    }
    s
}

fn lit(c: u32, out: &mut Vec<u32>) {
    if matches!(char::from_u32(c), Some('^' | '$' | '\\' | '.' | '*' | '+' | '?' | '(' | ')' | '[' | ']' | '{' | '}' | '|' | '/' | '-')) {
        out.push('\\' as u32);
    }
    out.push(c);
}

/// As an atom outside a class: `\-` is not an escape there under u / v.
fn lit_atom(c: u32, out: &mut Vec<u32>) {
    if c == '-' as u32 {
        out.push(c);
    } else {
        lit(c, out);
    }
}

/// The set of single characters matched by `re` in `hay` (every match must be one char).
fn matched_set(re: &regress::Regex, hay: &str) -> Result<RangeSet, String> {
    let r = engine::guarded(FUEL, || {
        let mut v = Vec::new();
        for m in re.find_iter(hay) {
            let s = &hay[m.range()];
            let mut it = s.chars();
            match (it.next(), it.next()) {
                (Some(c), None) => v.push((c as u32, c as u32)),
                _ => return Err(format!("match {:?} is not a single character", s)),
            }
        }
        Ok(RangeSet::from_ranges(v))
    });
    match r {
        Guarded::Ok(x) => x,
        Guarded::Fuel => Err("fuel exhausted".into()),
        Guarded::Panic(m) => Err(format!("panic: {}", m)),
    }
}

fn modes() -> Vec<(Flags, bool, &'static str)> {
    vec![(Flags::from_str("i"), false, "legacy"), (Flags::from_str("iu"), true, "u"), (Flags::from_str("iv"), true, "v")]
}

fn describe_diff(got: &RangeSet, want: &RangeSet) -> (String, String) {
    let extra = got.subtract(want);
    let missing = want.subtract(got);
    (format!("matched {} cps; unexpected: [{}]; missing: [{}]", got.count(), extra.describe(8), missing.describe(8)), format!("exactly [{}]", want.describe(12)))
}

pub fn run(cfg: &Cfg, rep: &mut Report) {
    let cd = case_data();
    let hay_all = all_scalars();
    let scalars = RangeSet::from_ranges([(0, 0xD7FF), (0xE000, MAX_CP)]);
    rep.add("nontrivial_code_points_legacy", cd.nontrivial_legacy.count());
    rep.add("nontrivial_code_points_unicode", cd.nontrivial_unicode.count());
    rep.add("code_points_with_orbit_from_std17", cd.from_std17.count());
    let mut idx: u64 = 0;
    let skip = |i: u64| cfg.resume_after.map(|r| i <= r).unwrap_or(false);

    // ---- step 0: hook sweep of the engine's Canonicalize against the oracle (localises failures)
    #[cfg(feature = "hooks")]
    if cfg.shard == 0 {
        for unicode in [false, true] {
            let mut bad = 0;
            for c in 0..=MAX_CP {
                let f = engine::hooks::fold_code_point(c, unicode);
                let in_class = f == c || (char::from_u32(c).is_some() && cd.equivalent(c, f, unicode));
                // all members of c's class must have the same engine canonical form
                let same = cd.class_of(c, unicode).iter().all(|&d| engine::hooks::fold_code_point(d, unicode) == f || char::from_u32(c).is_none());
                rep.inc("hook_canonicalize_calls");
                if !(in_class && same) && bad < 5 {
                    bad += 1;
                    rep.violation(violation(
                        "C10",
                        "the engine's Canonicalize table disagrees with the reference relation",
                        J::obj().set("code_point", c).set("unicode", unicode).set("check", "c10").set("construct", "hook:fold_code_point"),
                        format!("fold_code_point(U+{:04X}) = U+{:04X}; class members fold to {:?}", c, f, cd.class_of(c, unicode).iter().map(|&d| engine::hooks::fold_code_point(d, unicode)).collect::<Vec<_>>()),
                        format!("a member of the reference class {:X?}, the same for all members", cd.class_of(c, unicode)),
                    ));
                }
            }
        }
    }

    // ---- step 1: every aligned 256-block as a class, scanned over all scalar values
    let block_stride = if cfg.quick() { 1 } else { 1 };
    for (flags, unicode, mname) in modes() {
        for b in (0..=(MAX_CP >> 8)).step_by(block_stride) {
            idx += 1;
            let h = fnv64(format!("block|{}|{}", mname, b).as_bytes());
            if !cfg.mine(h) || skip(idx) {
                continue;
            }
            // quick tier: all blocks that contain a non-trivial code point in either relation, and every 8th other block
            let lo = b << 8;
            let hi = lo | 0xFF;
            let blk = RangeSet::from_range(lo, hi);
            let interesting = !blk.intersect(&cd.nontrivial_legacy).is_empty() || !blk.intersect(&cd.nontrivial_unicode).is_empty();
            if cfg.quick() && !interesting && b % 2 != (cfg.seed % 2) as u32 {
                continue;
            }
            rep.begin(idx, &J::obj().set("construct", "block_class").set("block", format!("{:X}-{:X}", lo, hi)).set("flags", flags.to_string()));
            let pat: Vec<u32> = vec!['[' as u32, lo, '-' as u32, hi, ']' as u32];
            // code points that are syntax inside a class at the range ends: use escapes for ']' '\' '^' '-'
            let pat = if lo == 0 { vec!['[' as u32, '\\' as u32, 'x' as u32, '0' as u32, '0' as u32, '-' as u32, hi, ']' as u32] } else { pat };
            let re = match engine::compile(&pat, flags, false) {
                Guarded::Ok(Ok(re)) => re,
                other => {
                    rep.violation(violation("C10", "block class did not compile", J::obj().set("block", lo).set("flags", flags.to_string()).set("check", "c10"), format!("{:?}", other.describe_short()), "Ok".into()));
                    continue;
                }
            };
            let want = cd.saturate(&blk, unicode).intersect(&scalars);
            match matched_set(&re, &hay_all) {
                Ok(got) => {
                    rep.eval(h, interesting);
                    rep.inc("blocks_scanned");
                    if got != want {
                        let (o, e) = describe_diff(&got, &want);
                        rep.violation(violation(
                            "C10",
                            "a class of 256 code points under i matches a different set than the union of its members' equivalence classes",
                            J::obj().set("construct", "block_class").set("block_first", lo).set("block_last", hi).set("flags", flags.to_string()).set("pattern_cps", J::Arr(pat.iter().map(|&c| J::from(c)).collect())).set("check", "c10"),
                            o,
                            e,
                        ));
                    }
                }
                Err(e) => rep.violation(violation("C10", "scan failed", J::obj().set("block", lo).set("flags", flags.to_string()).set("check", "c10"), e, "a set of single characters".into())),
            }
        }
    }

    // ---- step 1b: short class ranges with every start and end around every case-related code
    // point (the compressed fold tables are walked from arbitrary range ends, not only from
    // block-aligned ones)
    {
        let nt = cd.nontrivial_legacy.union(&cd.nontrivial_unicode).intersect(&scalars);
        let mut base = String::new();
        for c in nt.iter() {
            base.push(char::from_u32(c).unwrap());
        }
        let base_set = nt.clone();
        let mut seen: std::collections::HashSet<(u32, u32)> = std::collections::HashSet::new();
        for (flags, unicode, mname) in modes() {
            seen.clear();
            for c in nt.iter() {
                for lo in c.saturating_sub(2)..=c + 1 {
                    for hi in lo..=(c + 3).min(MAX_CP) {
                        if hi < c.saturating_sub(1) || !seen.insert((lo, hi)) {
                            continue;
                        }
                        idx += 1;
                        let h = fnv64(format!("rng|{}|{}|{}", mname, lo, hi).as_bytes());
                        if !cfg.mine(h) || skip(idx) {
                            continue;
                        }
                        if idx % 4096 == 0 {
                            rep.begin(idx, &J::obj().set("construct", "short_range").set("lo", lo).set("hi", hi).set("flags", flags.to_string()));
                        }
                        let esc = |c: u32, v: &mut Vec<u32>| {
                            if matches!(char::from_u32(c), Some('\\' | ']' | '[' | '^' | '-')) {
                                v.push('\\' as u32);
                            }
                            v.push(c);
                        };
                        let mut pat = vec!['[' as u32];
                        esc(lo, &mut pat);
                        pat.push('-' as u32);
                        esc(hi, &mut pat);
                        pat.push(']' as u32);
                        let Guarded::Ok(Ok(re)) = engine::compile(&pat, flags, false) else { continue };
                        let rng = RangeSet::from_range(lo, hi);
                        // haystack: all case-related characters plus the range itself
                        let mut hay = base.clone();
                        for x in rng.subtract(&base_set).intersect(&scalars).iter() {
                            hay.push(char::from_u32(x).unwrap());
                        }
                        let universe = base_set.union(&rng).intersect(&scalars);
                        let want = cd.saturate(&rng, unicode).intersect(&universe);
                        rep.inc("short_ranges");
                        match matched_set(&re, &hay) {
                            Ok(got) => {
                                rep.eval(h, true);
                                if got != want {
                                    let (o, e) = describe_diff(&got, &want);
                                    rep.violation(violation(
                                        "C10",
                                        "a short class range under i matches a different set than the union of its members' equivalence classes",
                                        J::obj().set("construct", "short_range").set("lo", lo).set("hi", hi).set("flags", flags.to_string()).set("pattern", engine::cps_to_string_lossy(&pat)).set("pattern_cps", J::Arr(pat.iter().map(|&c| J::from(c)).collect())).set("check", "c10"),
                                        o,
                                        e,
                                    ));
                                }
                            }
                            Err(e) => rep.violation(violation("C10", "scan failed", J::obj().set("lo", lo).set("hi", hi).set("flags", flags.to_string()).set("check", "c10"), e, "single characters".into())),
                        }
                    }
                }
            }
        }
    }

    // ---- step 2: every code point as a literal, run on the non-trivial haystack
    for (flags, unicode, mname) in modes() {
        // haystack: all non-trivial code points of both relations (the engine's extra partners
        // would show up here as unexpected matches) -- plus the code point itself, appended per case
        let nt = cd.nontrivial_legacy.union(&cd.nontrivial_unicode).intersect(&scalars);
        let mut base = String::new();
        for c in nt.iter() {
            base.push(char::from_u32(c).unwrap());
        }
        for c in 0..=MAX_CP {
            let nontrivial = cd.nontrivial(unicode).contains(c) || nt.contains(c);
            if cfg.quick() && !nontrivial && c % 11 != (cfg.seed % 11) as u32 {
                continue;
            }
            idx += 1;
            let h = fnv64(format!("lit|{}|{}", mname, c).as_bytes());
            if !cfg.mine(h) || skip(idx) {
                continue;
            }
            if idx % 4096 == 0 {
                rep.begin(idx, &J::obj().set("construct", "literal").set("code_point", c).set("flags", flags.to_string()));
            }
            let mut pat = Vec::new();
            lit_atom(c, &mut pat);
            let re = match engine::compile(&pat, flags, false) {
                Guarded::Ok(Ok(re)) => re,
                other => {
                    rep.violation(violation("C10", "a literal code point did not compile", J::obj().set("code_point", c).set("flags", flags.to_string()).set("check", "c10"), other.describe_short(), "Ok".into()));
                    continue;
                }
            };
            let mut hay = base.clone();
            let is_scalar = char::from_u32(c).is_some();
            if is_scalar && !nt.contains(c) {
                hay.push(char::from_u32(c).unwrap());
            }
            let want = if is_scalar { RangeSet::from_cps(cd.class_of(c, unicode)).intersect(&scalars) } else { RangeSet::new() };
            rep.inc("literal_code_points");
            match matched_set(&re, &hay) {
                Ok(got) => {
                    rep.eval(h, nontrivial);
                    if got != want {
                        let (o, e) = describe_diff(&got, &want);
                        rep.violation(violation(
                            "C10",
                            "a literal under i matches a different set of characters than its equivalence class",
                            J::obj().set("construct", "literal").set("code_point", c).set("flags", flags.to_string()).set("pattern_cps", J::Arr(pat.iter().map(|&c| J::from(c)).collect())).set("check", "c10"),
                            o,
                            e,
                        ));
                    }
                }
                Err(e) => rep.violation(violation("C10", "scan failed", J::obj().set("code_point", c).set("flags", flags.to_string()).set("check", "c10"), e, "single characters".into())),
            }
            // thorough: non-trivial literals also over the whole code space
            if !cfg.quick() && cd.nontrivial(unicode).contains(c) && is_scalar {
                if let Ok(got) = matched_set(&re, &hay_all) {
                    rep.inc("literals_scanned_over_all_scalars");
                    if got != want {
                        let (o, e) = describe_diff(&got, &want);
                        rep.violation(violation("C10", "a literal under i matches a different set over the whole code space", J::obj().set("construct", "literal_all").set("code_point", c).set("flags", flags.to_string()).set("check", "c10"), o, e));
                    }
                }
            }
        }
    }

    // ---- step 3: the other constructs on every ordered pair of every non-trivial class
    for (flags, unicode, mname) in modes() {
        let nt = cd.nontrivial(unicode).intersect(&scalars);
        let mut seen_class: std::collections::HashSet<u32> = std::collections::HashSet::new();
        for c in nt.iter() {
            let rep_c = cd.rep(c, unicode);
            if !seen_class.insert(rep_c) {
                continue;
            }
            let class: Vec<u32> = cd.class_of(c, unicode).into_iter().filter(|&x| char::from_u32(x).is_some()).collect();
            idx += 1;
            let h = fnv64(format!("class|{}|{}", mname, rep_c).as_bytes());
            if !cfg.mine(h) || skip(idx) {
                continue;
            }
            if idx % 64 == 0 {
                rep.begin(idx, &J::obj().set("construct", "class_pairs").set("class", J::Arr(class.iter().map(|&x| J::from(x)).collect())).set("flags", flags.to_string()));
            }
            rep.inc("classes");
            // an outsider: a character not in the class
            let outsider = if class.contains(&('q' as u32)) { 'z' } else { 'q' };
            for &a in &class {
                for &b in &class {
                    rep.inc("ordered_pairs");
                    let (ca, cb) = (char::from_u32(a).unwrap(), char::from_u32(b).unwrap());
                    let mut la = Vec::new();
                    lit(a, &mut la);
                    let mk = |pre: &str, mid: &[u32], post: &str| -> Vec<u32> {
                        let mut v: Vec<u32> = pre.chars().map(|c| c as u32).collect();
                        v.extend_from_slice(mid);
                        v.extend(post.chars().map(|c| c as u32));
                        v
                    };
                    // (construct name, pattern, haystack, should match whole haystack?)
                    let two = format!("{}{}", ca, cb);
                    let cases: Vec<(&str, Vec<u32>, String, bool)> = vec![
                        ("class", mk("^[", &la, "]$"), cb.to_string(), true),
                        ("negated_class", mk("^[^", &la, "]$"), cb.to_string(), false),
                        ("negated_class_outsider", mk("^[^", &la, "]$"), outsider.to_string(), true),
                        ("backreference", mk("^(", &la, ")\\1$"), two.clone(), true),
                        ("backreference_in_lookbehind", mk("(?<=(", &la, ")\\1)$"), format!("{}{}", cb, ca), false),
                        ("named_backreference", mk("^(?<n>", &la, ")\\k<n>$"), two.clone(), true),
                        ("class_range", mk("^[", &[a, '-' as u32, a], "]$"), cb.to_string(), true),
                        // the expansion of a case class must not bring in a padding value
                        ("literal_vs_nul", mk("^", &la, "$"), "\u{0}".to_string(), false),
                        ("class_vs_nul", mk("^x?[", &la, "]$"), "\u{0}".to_string(), false),
                        ("literal_after_literal_vs_del", mk("^x", &la, "$"), "x\u{7f}".to_string(), false),
                    ];
                    let mut cases = cases;
                    if flags.v {
                        // class strings are compared by canonical form as well, also inside && and --
                        let mut lb = Vec::new();
                        lit(b, &mut lb);
                        let join = |parts: &[&[u32]]| -> Vec<u32> { parts.iter().flat_map(|p| p.iter().copied()).collect() };
                        let c = |s: &str| -> Vec<u32> { s.chars().map(|c| c as u32).collect() };
                        cases.push(("class_string", join(&[&c("^[\\q{"), &la, &c("0}]$")]), format!("{}0", cb), true));
                        cases.push(("class_string_intersection", join(&[&c("^[\\q{"), &la, &c("0}&&\\q{"), &lb, &c("0}]$")]), format!("{}0", ca), true));
                        cases.push(("class_string_subtraction", join(&[&c("^[\\q{"), &la, &c("0|zz}--\\q{"), &lb, &c("0}]$")]), format!("{}0", ca), false));
                    }
                    for (name, pat, hay, want) in cases {
                        let hh = fnv64(format!("{}|{}|{}|{}|{}", name, mname, a, b, hay).as_bytes());
                        if name == "class_range" && matches!(ca, '\\' | ']' | '^' | '-' | '[') {
                            continue;
                        }
                        let re = match engine::compile(&pat, flags, false) {
                            Guarded::Ok(Ok(re)) => re,
                            other => {
                                rep.violation(violation("C10", "construct did not compile", J::obj().set("construct", name).set("pattern", engine::cps_to_string_lossy(&pat)).set("flags", flags.to_string()).set("check", "c10"), other.describe_short(), "Ok".into()));
                                continue;
                            }
                        };
                        // "backreference_in_lookbehind": (?<=(a)\1)$ on "ba": \1 is evaluated before (a) going backwards, so it is empty; then (a) must match the last char 'a'... the haystack ends with `a` itself, so it matches iff literal a matches a: always true.
                        let want = if name == "backreference_in_lookbehind" { true } else { want };
                        let got = match engine::find_first(&re, &hay, 0, Api::Utf8, 10_000_000) {
                            Guarded::Ok(m) => m.is_some(),
                            _ => {
                                rep.inconclusive("construct_fuel_or_panic");
                                continue;
                            }
                        };
                        rep.eval(hh, true);
                        rep.inc(&format!("construct.{}", name));
                        if got != want {
                            rep.violation(violation(
                                "C10",
                                &format!("construct '{}' disagrees with the canonical equivalence of U+{:04X} and U+{:04X}", name, a, b),
                                J::obj().set("construct", name).set("pattern", engine::cps_to_string_lossy(&pat)).set("pattern_cps", J::Arr(pat.iter().map(|&c| J::from(c)).collect())).set("flags", flags.to_string()).set("haystack", hay.as_str()).set("haystack_hex", hex(hay.as_bytes())).set("start", 0).set("check", "c10"),
                                format!("matched = {}", got),
                                format!("matched = {}", want),
                            ));
                        }
                    }
                    // ASCII entry point for the ASCII fold
                    if a < 128 && b < 128 {
                        if let Guarded::Ok(Ok(re)) = engine::compile(&la, flags, false) {
                            let got = matches!(engine::find_first(&re, &cb.to_string(), 0, Api::Ascii, 1_000_000), Guarded::Ok(Some(_)));
                            rep.inc("construct.ascii_literal");
                            if !got {
                                rep.violation(violation("C10", "ASCII entry point: literal does not match its ASCII case partner", J::obj().set("construct", "ascii_literal").set("pattern", engine::cps_to_string_lossy(&la)).set("flags", flags.to_string()).set("haystack", cb.to_string()).set("check", "c10"), "no match".into(), "match".into()));
                            }
                        }
                    }
                }
            }
        }
    }

    // ---- step 4: \w and \b for every code point whose class meets the ASCII word characters
    if cfg.shard == 0 {
        for (flags, unicode, _mname) in modes() {
            let word = crate::uniref::es_word_basic();
            let sat = if unicode { cd.saturate(&word, true) } else { word.clone() };
            let cands = cd.saturate(&word, true).union(&cd.saturate(&word, false)).intersect(&scalars);
            let w = match engine::compile(&engine::to_cps("^\\w$"), flags, false) {
                Guarded::Ok(Ok(re)) => re,
                _ => continue,
            };
            let nw = engine::compile(&engine::to_cps("^\\W$"), flags, false).ok().and_then(|r| r.ok());
            let bw = engine::compile(&engine::to_cps("^\\b.\\b$"), Flags { s: true, ..flags }, false).ok().and_then(|r| r.ok());
            let cw = engine::compile(&engine::to_cps("^[\\w]$"), flags, false).ok().and_then(|r| r.ok());
            let cnw = engine::compile(&engine::to_cps("^[\\W]$"), flags, false).ok().and_then(|r| r.ok());
            // the same questions where the optimizer copies the assertion (counted groups are
            // unrolled), inside lookarounds, and with \B
            let sflags = Flags { s: true, ..flags };
            let bw1 = engine::compile(&engine::to_cps("^(?:\\b.\\b){1}$"), sflags, false).ok().and_then(|r| r.ok());
            let bw2 = engine::compile(&engine::to_cps("^(?:\\b.\\b-?){1,2}$"), sflags, false).ok().and_then(|r| r.ok());
            let bw3 = engine::compile(&engine::to_cps("^(?=\\b).(?<=\\b.)(?<!\\B.)$"), sflags, false).ok().and_then(|r| r.ok());
            let nb1 = engine::compile(&engine::to_cps("^(?:\\B.\\B){1,3}$"), sflags, false).ok().and_then(|r| r.ok());
            for c in cands.iter() {
                let s = char::from_u32(c).unwrap().to_string();
                let want = sat.contains(c);
                let probes: Vec<(&str, Option<&regress::Regex>, bool)> = vec![("\\w", Some(&w), want), ("\\W", nw.as_ref(), !want), ("\\b", bw.as_ref(), want), ("[\\w]", cw.as_ref(), want), ("[\\W]", cnw.as_ref(), !want), ("(?:\\b.\\b){1}", bw1.as_ref(), want), ("(?:\\b.\\b-?){1,2}", bw2.as_ref(), want), ("(?=\\b).(?<=\\b.)(?<!\\B.)", bw3.as_ref(), want), ("(?:\\B.\\B){1,3}", nb1.as_ref(), !want)];
                for (name, re, want) in probes {
                    let Some(re) = re else { continue };
                    let got = matches!(engine::find_first(re, &s, 0, Api::Utf8, 1_000_000), Guarded::Ok(Some(_)));
                    rep.inc("construct.word_probes");
                    rep.eval(fnv64(format!("w|{}|{}|{}", name, flags.to_string(), c).as_bytes()), true);
                    if got != want {
                        rep.violation(violation(
                            "C10",
                            &format!("{} under i disagrees with WordCharacters for U+{:04X}", name, c),
                            J::obj().set("construct", name).set("code_point", c).set("flags", flags.to_string()).set("haystack", s.as_str()).set("check", "c10"),
                            format!("matched = {}", got),
                            format!("matched = {}", want),
                        ));
                    }
                }
            }
        }
    }
    // ---- step 5: the ASCII entry points on every ASCII pair differing only in bit 5, and \b/\w there
    if cfg.shard == 1 % cfg.nshards {
        for (flags, unicode, _m) in modes() {
            for a in 0x21u32..0x7F {
                for b in [a, a ^ 0x20] {
                    if !(0x21..0x7F).contains(&b) {
                        continue;
                    }
                    let (ca, cb) = (char::from_u32(a).unwrap(), char::from_u32(b).unwrap());
                    let want = cd.equivalent(a, b, unicode);
                    let mut la = Vec::new();
                    lit(a, &mut la);
                    let mk = |pre: &str, mid: &[u32], post: &str| -> Vec<u32> {
                        let mut v: Vec<u32> = pre.chars().map(|c| c as u32).collect();
                        v.extend_from_slice(mid);
                        v.extend(post.chars().map(|c| c as u32));
                        v
                    };
                    let mut at = Vec::new();
                    lit_atom(a, &mut at);
                    for (name, pat, hay) in [("ascii_backreference", mk("^(", &at, ")\\1$"), format!("{}{}", ca, cb)), ("ascii_class", mk("^[", &la, "]$"), cb.to_string()), ("ascii_literal_pair", mk("^", &at, "$"), cb.to_string()), ("ascii_backreference_lookbehind", mk("(?<=^(", &at, ").)(?<=\\1)$"), format!("{}{}", ca, cb))] {
                        if let Guarded::Ok(Ok(re)) = engine::compile(&pat, flags, false) {
                            for api in [Api::Ascii, Api::PikeAscii, Api::Utf8] {
                                let got = matches!(engine::find_first(&re, &hay, 0, api, 1_000_000), Guarded::Ok(Some(_)));
                                rep.inc(&format!("construct.{}", name));
                                rep.eval(fnv64(format!("{}|{}|{}|{:?}|{}", name, a, b, api, flags.to_string()).as_bytes()), true);
                                if got != want {
                                    rep.violation(violation(
                                        "C10",
                                        &format!("{:?} entry point: construct '{}' disagrees with the canonical equivalence of {:?} and {:?}", api, name, ca, cb),
                                        J::obj().set("construct", name).set("pattern", engine::cps_to_string_lossy(&pat)).set("pattern_cps", J::Arr(pat.iter().map(|&c| J::from(c)).collect())).set("flags", flags.to_string()).set("haystack", hay.as_str()).set("haystack_hex", hex(hay.as_bytes())).set("start", 0).set("api", format!("{:?}", api)).set("check", "c10"),
                                        format!("matched = {}", got),
                                        format!("matched = {}", want),
                                    ));
                                }
                            }
                        }
                    }
                }
                // word character classification through the ASCII entry points
                let s = char::from_u32(a).unwrap().to_string();
                let is_word = crate::uniref::es_word_basic().contains(a);
                for (pat, want) in [("^\\w$", is_word), ("^\\W$", !is_word), ("^\\b.\\b$", is_word), ("^\\B.\\B$", !is_word)] {
                    if let Guarded::Ok(Ok(re)) = engine::compile(&engine::to_cps(pat), flags, false) {
                        for api in [Api::Ascii, Api::PikeAscii] {
                            let got = matches!(engine::find_first(&re, &s, 0, api, 1_000_000), Guarded::Ok(Some(_)));
                            rep.inc("construct.ascii_word_probes");
                            rep.eval(fnv64(format!("aw|{}|{}|{:?}|{}", pat, a, api, flags.to_string()).as_bytes()), true);
                            if got != want {
                                rep.violation(violation("C10", &format!("{:?} entry point: {} disagrees with the word characters for {:?}", api, pat, s), J::obj().set("construct", pat).set("flags", flags.to_string()).set("haystack", s.as_str()).set("api", format!("{:?}", api)).set("check", "c10"), format!("matched = {}", got), format!("matched = {}", want)));
                            }
                        }
                    }
                }
            }
        }
    }
    if rep.samples.len() < rep.max_samples {
        rep.sample(J::obj().set("construct", "literal").set("example", "/\\u212A/iu over the non-trivial haystack must match exactly {K, k, U+212A}"));
        rep.sample(J::obj().set("construct", "block_class").set("example", "/[\\u0100-\\u01FF]/i over all 1,112,064 scalar values"));
    }
}
