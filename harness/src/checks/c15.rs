//! C15: observable results do not depend on build features. This runner replays a deterministic
//! case stream and prints one digest per program (`D <idx> <hash> <cost>`); the supervisor runs
//! it in every feature variant and compares the digests with the default build's.

use super::common::*;
use crate::engine::{self, Api, Guarded};
use crate::esref::Flags;
use crate::gen::{self, GenCfg};
use crate::json::J;
use crate::report::{Cfg, Report};
use crate::rng::{fnv64, Rng};
use std::collections::HashSet;
use std::io::Write;

const FUEL: u64 = 300_000;

fn tweak(g: &mut GenCfg, rng: &mut Rng) {
    g.props = rng.chance(1, 3);
    g.long_literals = rng.chance(1, 3);
    g.max_depth = rng.range(1, 3);
}

fn fold(h: &mut u64, s: &str) {
    *h = (*h ^ fnv64(s.as_bytes())).wrapping_mul(0x100000001b3).rotate_left(13);
}

pub fn run(cfg: &Cfg, rep: &mut Report) {
    let fl = |s: &str| Flags::from_str(s);
    let mut fixed = super::diff::fixed_corpus();
    for (p, f) in [("\\p{Lu}+", "u"), ("\\p{sc=Greek}", "u"), ("[\\p{L}--\\p{Lu}]", "v"), ("\\p{RGI_Emoji}", "v"), ("(?<n>k)\\k<n>", "iu"), ("ſ", "i"), ("[^\\W]", "iu"), ("\u{1F88}|\u{1F80}", "i"), ("\\w+@\\w+", ""), ("(?i:straße)|STRASSE", "u")] {
        fixed.push((p.to_string(), fl(f)));
    }
    fixed.extend(super::diff::first_position_shapes());
    let spec = StreamSpec { n_struct: cfg.scaled(if cfg.quick() { 12_000 } else { 300_000 }), enum_nodes: if cfg.quick() { 3 } else { 4 }, enum_flags: vec![fl(""), fl("i"), fl("iu"), fl("mv")], tweak, fixed, templates: true };
    let skip: HashSet<u64> = match cfg.opt("skip_file") {
        Some(p) => std::fs::read_to_string(p).unwrap_or_default().split_whitespace().filter_map(|x| x.parse().ok()).collect(),
        None => HashSet::new(),
    };
    let dump: Option<u64> = cfg.opt("dump_idx").and_then(|x| x.parse().ok());
    let budget = if cfg.quick() { 60 } else { 150 };
    let out = std::io::stdout();
    for_each_program(cfg, rep, &spec, |p, rep, rng| {
        if skip.contains(&p.idx) {
            rep.inc("skipped.expensive_in_default_build");
            return;
        }
        if let Some(d) = dump {
            if p.idx != d {
                return;
            }
        }
        let mut h: u64 = 0xcbf29ce484222325;
        let mut cost: u64 = 0;
        let mut full: Vec<String> = Vec::new();
        let mut note = |h: &mut u64, s: String| {
            fold(h, &s);
            if dump.is_some() {
                full.push(s);
            }
        };
        let re = match engine::compile(&p.pattern, p.flags, false) {
            Guarded::Ok(Ok(re)) => {
                note(&mut h, "compile:ok".into());
                Some(re)
            }
            Guarded::Ok(Err(_)) => {
                note(&mut h, "compile:err".into());
                None
            }
            other => {
                note(&mut h, format!("compile:{}", other.describe_short()));
                None
            }
        };
        let mut hays = haystacks(p, rng, budget, 2, false);
        hays.truncate(budget + 4);
        if let Some(re) = &re {
            for hay in &hays {
                for start in thin_starts(gen::boundaries(hay)) {
                    for (name, api) in [("u8", Api::Utf8), ("pike", Api::Pike), ("ascii", Api::Ascii)] {
                        if api == Api::Ascii && !hay.is_ascii() {
                            continue;
                        }
                        if api == Api::Pike && !cfg!(feature = "re-pikevm") {
                            continue;
                        }
                        let r = engine::find_all(re, hay, start, api, FUEL);
                        cost += 1;
                        let s = match &r {
                            Guarded::Ok(v) => engine::show_matches(v),
                            Guarded::Fuel => {
                                cost += 1_000_000;
                                "FUEL".to_string()
                            }
                            Guarded::Panic(m) => format!("PANIC({})", m),
                        };
                        rep.eval(fnv64(format!("{}|{}|{}|{}", p.hash(), hay, start, name).as_bytes()), matches!(&r, Guarded::Ok(v) if !v.is_empty()));
                        note(&mut h, format!("{}|{:?}|{}|{}", name, hay, start, s));
                    }
                }
                let r = engine::guarded(FUEL, || (re.replace_all(hay, "[$1|$0|${a}]"), re.replace(hay, "<$2>")));
                note(
                    &mut h,
                    format!(
                        "replace|{:?}|{}",
                        hay,
                        match r {
                            Guarded::Ok((a, b)) => format!("{:?}/{:?}", a, b),
                            Guarded::Fuel => {
                                // step budgets differ between builds (different lowering): a program
                                // that exhausts it anywhere is excluded from the comparison
                                cost += 1_000_000;
                                "FUEL".into()
                            }
                            Guarded::Panic(m) => format!("PANIC({})", m),
                        }
                    ),
                );
            }
        }
        let mut lock = out.lock();
        let _ = writeln!(lock, "D {} {:016x} {}", p.idx, h, cost);
        if dump.is_some() {
            let _ = writeln!(lock, "X {}", J::obj().set("program", p.describe()).set("observations", J::Arr(full.iter().map(|s| J::from(s.as_str())).collect())).to_string());
        }
        if rep.samples.len() < rep.max_samples && rep.get("programs") % 499 == 1 {
            rep.sample(p.describe().set("digest", format!("{:016x}", h)).set("haystacks", hays.len()));
        }
    });
}
