//! C11: Unicode property escapes denote exactly the Unicode 17 sets.
//! Layered oracles (DESIGN.md C11): L1 exact Unicode 17 sources, L2 version-independent algebra,
//! L4 regex-syntax 16.0 on code points assigned in 16.0 modulo a pinned drift list; name tables
//! from the specification; structural checks for the properties of strings.

use super::common::*;
use crate::engine::{self, Api, Guarded};
use crate::esref::props;
use crate::esref::Flags;
use crate::json::{self, J};
use crate::rangeset::{RangeSet, MAX_CP};
use crate::report::{Cfg, Report};
use crate::rng::fnv64;
use crate::uniref;
use std::collections::BTreeMap;

const FUEL: u64 = 2_000_000_000;
const DRIFT_JSON: &str = include_str!("../../../data/ucd16_17_drift.json");

fn scalars() -> RangeSet {
    RangeSet::from_ranges([(0, 0xD7FF), (0xE000, MAX_CP)])
}

struct Scan {
    hay: String,
}

impl Scan {
    fn new() -> Scan {
        let mut s = String::with_capacity(4_500_000);
        for c in 0..=MAX_CP {
            if let Some(ch) = char::from_u32(c) {
                s.push(ch);
            }
        }
        Scan { hay: s }
    }
    /// Set of single scalar values matched by pattern under flags; Err(text) if it does not
    /// compile or a match is not a single character.
    fn set(&self, pat: &str, flags: &str) -> Result<RangeSet, String> {
        let re = match engine::compile(&engine::to_cps(pat), Flags::from_str(flags), false) {
            Guarded::Ok(Ok(re)) => re,
            Guarded::Ok(Err(e)) => return Err(format!("does not compile: {}", e)),
            other => return Err(other.describe_short()),
        };
        let hay = &self.hay;
        let r = engine::guarded(FUEL, || {
            let mut v: Vec<(u32, u32)> = Vec::new();
            for m in re.find_iter(hay) {
                let s = &hay[m.range()];
                let mut it = s.chars();
                match (it.next(), it.next()) {
                    (Some(c), None) => {
                        let c = c as u32;
                        match v.last_mut() {
                            Some(l) if l.1 + 1 == c => l.1 = c,
                            _ => v.push((c, c)),
                        }
                    }
                    _ => return Err(format!("match {:?} is not a single character", s)),
                }
            }
            Ok(RangeSet::from_ranges(v))
        });
        match r {
            Guarded::Ok(x) => x,
            Guarded::Fuel => Err("fuel exhausted".into()),
            Guarded::Panic(m) => Err(format!("panic: {}", m)),
        }
    }
}

fn compiles(pat: &str, flags: &str) -> bool {
    matches!(engine::compile(&engine::to_cps(pat), Flags::from_str(flags), false), Guarded::Ok(Ok(_)))
}

fn matches_whole(pat: &str, flags: &str, s: &str) -> Option<bool> {
    match engine::compile(&engine::to_cps(pat), Flags::from_str(flags), false) {
        Guarded::Ok(Ok(re)) => match engine::find_first(&re, s, 0, Api::Utf8, 10_000_000) {
            Guarded::Ok(m) => Some(m.map(|m| m.range == (0, s.len())).unwrap_or(false)),
            _ => None,
        },
        _ => None,
    }
}

fn diff_text(got: &RangeSet, want: &RangeSet) -> (String, String) {
    let extra = got.subtract(want);
    let missing = want.subtract(got);
    (format!("{} code points; {} unexpected [{}]; {} missing [{}]", got.count(), extra.count(), extra.describe(6), missing.count(), missing.describe(6)), format!("{} code points", want.count()))
}

fn ranges_json(s: &RangeSet) -> J {
    J::Arr(s.ranges().iter().map(|(a, b)| J::Arr(vec![J::from(*a), J::from(*b)])).collect())
}

fn ranges_from_json(j: Option<&J>) -> RangeSet {
    let mut v = Vec::new();
    if let Some(J::Arr(a)) = j {
        for r in a {
            if let J::Arr(p) = r {
                if let (Some(x), Some(y)) = (p.first().and_then(|x| x.as_i64()), p.get(1).and_then(|x| x.as_i64())) {
                    v.push((x as u32, y as u32));
                }
            }
        }
    }
    RangeSet::from_ranges(v)
}

/// One value of one property, with all its ECMAScript spellings.
struct Value {
    /// e.g. "gc=Lu", "sc=Greek", "scx=Greek", "Alphabetic"
    key: String,
    /// canonical spelling for \p{..}
    canonical: String,
    spellings: Vec<String>,
    /// regex-syntax pattern for the 16.0 set (None if unavailable)
    rs16: Option<String>,
    exact17: Option<RangeSet>,
}

fn values() -> Vec<Value> {
    let mut v = Vec::new();
    for (long, aliases) in props::BINARY {
        let mut sp = vec![long.to_string()];
        sp.extend(aliases.iter().map(|a| a.to_string()));
        let rs16 = match *long {
            "Any" => Some(r"\p{Any}".to_string()),
            "Assigned" => Some(r"\P{Cn}".to_string()),
            "ASCII" => Some(r"\p{ASCII}".to_string()),
            "Changes_When_NFKC_Casefolded" => None,
            l => Some(format!(r"\p{{{}}}", l)),
        };
        v.push(Value { key: long.to_string(), canonical: long.to_string(), spellings: sp, rs16, exact17: props::exact17_binary(long) });
    }
    for (long, aliases) in props::GENERAL_CATEGORY {
        let mut names = vec![long.to_string()];
        names.extend(aliases.iter().map(|a| a.to_string()));
        let mut sp = Vec::new();
        for n in &names {
            sp.push(n.clone());
            sp.push(format!("gc={}", n));
            sp.push(format!("General_Category={}", n));
        }
        let short = aliases[0];
        v.push(Value { key: format!("gc={}", short), canonical: format!("gc={}", short), spellings: sp, rs16: Some(format!(r"\p{{gc={}}}", long)), exact17: props::exact17_gc(short) });
    }
    for (long, aliases, ver) in props::SCRIPTS {
        let mut names = vec![long.to_string()];
        names.extend(aliases.iter().map(|a| a.to_string()));
        for (pfx, alt, is_scx) in [("sc", "Script", false), ("scx", "Script_Extensions", true)] {
            let mut sp = Vec::new();
            for n in &names {
                sp.push(format!("{}={}", pfx, n));
                sp.push(format!("{}={}", alt, n));
            }
            let rs16 = if *ver >= 17 {
                None
            } else if *long == "Unknown" {
                Some(r"[\p{Cn}\p{Co}\p{Cs}]".to_string())
            } else {
                Some(format!(r"\p{{{}={}}}", pfx, long))
            };
            let _ = is_scx;
            v.push(Value { key: format!("{}={}", pfx, long), canonical: format!("{}={}", pfx, long), spellings: sp, rs16, exact17: None });
        }
    }
    v
}

pub fn run(cfg: &Cfg, rep: &mut Report) {
    let scan = Scan::new();
    let sc = scalars();
    let assigned16 = uniref::assigned16().clone();
    let drift = json::parse(DRIFT_JSON).unwrap_or(J::obj());
    let gen_drift = cfg.opt("gen_drift").is_some();
    let vals = values();
    rep.add("property_values", vals.len() as u64);
    let mut engine_sets: BTreeMap<String, RangeSet> = BTreeMap::new();
    let mut idx = 0u64;
    let skip = |i: u64| cfg.resume_after.map(|r| i <= r).unwrap_or(false);
    let viol = |rep: &mut Report, what: &str, spelling: &str, flags: &str, obs: String, exp: String| {
        rep.violation(violation("C11", what, J::obj().set("spelling", spelling).set("pattern", format!("\\p{{{}}}", spelling)).set("flags", flags).set("check", "c11"), obs, exp));
    };

    // ---- per value: spellings agree, \P is the complement, layers L1 / L4
    for val in &vals {
        idx += 1;
        let h = fnv64(val.key.as_bytes());
        let mine = cfg.mine(h) && !skip(idx);
        // the algebra below needs gc / sc / a few binary sets in every shard: compute lazily later
        if !mine {
            continue;
        }
        rep.begin(idx, &J::obj().set("value", val.key.as_str()).set("spellings", val.spellings.len()));
        rep.inc("values_checked");
        let canon_pat = format!("\\p{{{}}}", val.canonical);
        let base = match scan.set(&canon_pat, "u") {
            Ok(s) => s,
            Err(e) => {
                viol(rep, "an ECMAScript property spelling is rejected or unusable", &val.canonical, "u", e, "compiles and matches single code points".into());
                continue;
            }
        };
        engine_sets.insert(val.key.clone(), base.clone());
        rep.eval(h, !base.is_empty());
        rep.inc("sets_scanned");
        // every spelling denotes the same set (quick: compile + full scan for each)
        for sp in &val.spellings {
            rep.inc("spellings");
            let p = format!("\\p{{{}}}", sp);
            if *sp != val.canonical {
                match scan.set(&p, "u") {
                    Ok(s) => {
                        rep.inc("sets_scanned");
                        rep.eval(fnv64(p.as_bytes()), !s.is_empty());
                        if s != base {
                            let (o, e) = diff_text(&s, &base);
                            viol(rep, "two spellings of the same property value denote different sets", sp, "u", o, format!("the set of \\p{{{}}}: {}", val.canonical, e));
                        }
                    }
                    Err(e) => viol(rep, "an ECMAScript property spelling is rejected or unusable", sp, "u", e, "compiles".into()),
                }
            }
            if !compiles(&p, "v") || !compiles(&format!("\\P{{{}}}", sp), "u") || !compiles(&format!("[\\p{{{}}}]", sp), "v") {
                viol(rep, "an ECMAScript property spelling is rejected under v, with \\P, or inside a class", sp, "v", "Err".into(), "Ok".into());
            }
        }
        // The scan finds members with an unanchored search, whose start predicate proposes only
        // positions whose first byte can begin a member: a false member of the *instruction* (a
        // padding value, a sentinel) stays invisible there. Ask again in a position the prefilter
        // does not guard, for the ends of the code space, the encoding boundaries and the set's own
        // first and last members and their neighbours.
        {
            let mut probes: Vec<u32> = vec![0x0, 0x1, 0x7F, 0x80, 0x7FF, 0x800, 0xFFFF, 0x10000, 0x10FFFF];
            if let (Some(&(lo, _)), Some(&(_, hi))) = (base.ranges().first(), base.ranges().last()) {
                for c in [lo.saturating_sub(1), lo, hi, (hi + 1).min(0x10FFFF)] {
                    probes.push(c);
                }
            }
            probes.retain(|c| char::from_u32(*c).is_some());
            probes.sort_unstable();
            probes.dedup();
            for (tmpl, flags) in [("^\\p{X}$", "u"), ("(?<=^\\p{X})$", "v"), ("^[\\p{X}]$", "iu")] {
                // (under iu the set may legitimately grow by case closure: only asked about probes
                // without case partners)
                let pat = tmpl.replace("X", &val.canonical);
                let Guarded::Ok(Ok(re)) = engine::compile(&engine::to_cps(&pat), Flags::from_str(flags), false) else { continue };
                for &c in &probes {
                    let s = char::from_u32(c).unwrap().to_string();
                    let want = base.contains(c);
                    if flags == "iu" && !crate::gen::partners(c).iter().all(|&x| x == c || (x ^ 0x20) == c) {
                        continue;
                    }
                    rep.inc("anchored_membership_probes");
                    if let Guarded::Ok(m) = engine::find_first(&re, &s, 0, Api::Utf8, 10_000_000) {
                        let got = m.is_some();
                        if got != want {
                            viol(rep, "membership asked in an anchored position differs from the set found by scanning", &val.canonical, flags, format!("{} on U+{:04X}: matched = {}", pat, c, got), format!("matched = {} (the scanned set)", want));
                        }
                    }
                }
            }
        }
        // complement and the other syntactic positions, for the canonical spelling; the escape
        // together with other class atoms (a member of the set and a non-member, as \u{..} escapes)
        let member = base.ranges().first().map(|r| r.0).unwrap_or(0x41);
        let outsider = sc.subtract(&base).ranges().first().map(|r| r.0).unwrap_or(0x41);
        let one = |c: u32| RangeSet::from_ranges(vec![(c, c)]);
        for (pat, flags, want, what) in [
            (format!("[\\P{{{}}}\\u{{{:X}}}]", val.canonical, member), "u", sc.subtract(&base).union(&one(member)).intersect(&sc), "[\\P{..}x] is not the complement plus x"),
            (format!("[\\u{{{:X}}}\\P{{{}}}]", member, val.canonical), "u", sc.subtract(&base).union(&one(member)).intersect(&sc), "[x\\P{..}] is not the complement plus x"),
            (format!("[^\\P{{{}}}\\u{{{:X}}}]", val.canonical, member), "u", base.subtract(&one(member)), "[^\\P{..}x] is not the set minus x"),
            (format!("[\\p{{{}}}\\u{{{:X}}}]", val.canonical, outsider), "u", base.union(&one(outsider)).intersect(&sc), "[\\p{..}y] is not the set plus y"),
            (format!("[^\\p{{{}}}\\u{{{:X}}}]", val.canonical, outsider), "u", sc.subtract(&base).subtract(&one(outsider)), "[^\\p{..}y] is not the complement minus y"),
            (format!("\\P{{{}}}", val.canonical), "u", sc.subtract(&base), "\\P{..} is not the complement of \\p{..}"),
            (format!("\\p{{{}}}", val.canonical), "v", base.clone(), "\\p{..} under v differs from u"),
            (format!("[\\p{{{}}}]", val.canonical), "u", base.clone(), "[\\p{..}] differs from \\p{..}"),
            (format!("[^\\p{{{}}}]", val.canonical), "v", sc.subtract(&base), "[^\\p{..}] under v is not the complement"),
            (format!("[\\P{{{}}}]", val.canonical), "v", sc.subtract(&base), "[\\P{..}] under v is not the complement"),
            (format!("[^\\P{{{}}}]", val.canonical), "u", base.clone(), "[^\\P{..}] differs from \\p{..}"),
        ] {
            match scan.set(&pat, flags) {
                Ok(s) => {
                    rep.inc("sets_scanned");
                    rep.eval(fnv64(format!("{}|{}", pat, flags).as_bytes()), true);
                    if s != want {
                        let (o, e) = diff_text(&s, &want);
                        rep.violation(violation("C11", what, J::obj().set("pattern", pat.as_str()).set("flags", flags).set("check", "c11"), o, e));
                    }
                }
                Err(e) => rep.violation(violation("C11", "pattern rejected or unusable", J::obj().set("pattern", pat.as_str()).set("flags", flags).set("check", "c11"), e, "compiles".into())),
            }
        }
        // L1: exact Unicode 17 source
        if let Some(exact) = &val.exact17 {
            rep.inc("layer.L1_exact_unicode17");
            let want = exact.intersect(&sc);
            if base != want {
                let (o, e) = diff_text(&base, &want);
                viol(rep, "L1: the set differs from the exact Unicode 17 set", &val.canonical, "u", o, e);
            }
        }
        // L4: 16.0 on code points assigned in 16.0, modulo the pinned drift
        if let Some(rs) = &val.rs16 {
            if let Some(s16) = uniref::rs16_class(rs) {
                rep.inc("layer.L4_cross_version");
                let got = base.intersect(&assigned16);
                let want16 = s16.intersect(&assigned16).intersect(&sc);
                let added = got.subtract(&want16);
                let removed = want16.subtract(&got);
                if gen_drift {
                    if !added.is_empty() || !removed.is_empty() {
                        rep.known(J::obj().set("drift", val.key.as_str()).set("added", ranges_json(&added)).set("removed", ranges_json(&removed)));
                    }
                } else {
                    let d = drift.get(&val.key);
                    let want_added = ranges_from_json(d.and_then(|d| d.get("added")));
                    let want_removed = ranges_from_json(d.and_then(|d| d.get("removed")));
                    rep.add("drift_entries_used", want_added.count() + want_removed.count());
                    if added != want_added || removed != want_removed {
                        viol(
                            rep,
                            "L4: on code points assigned in Unicode 16.0 the set differs from the 16.0 set by more than the pinned 16->17 drift",
                            &val.canonical,
                            "u",
                            format!("vs 16.0: added [{}] removed [{}]", added.describe(8), removed.describe(8)),
                            format!("pinned drift: added [{}] removed [{}]", want_added.describe(8), want_removed.describe(8)),
                        );
                    }
                }
            } else {
                rep.inc("layer.no_16_0_data");
            }
        } else {
            rep.inc("layer.no_16_0_data");
        }
    }

    // ---- L2 algebra (one shard computes the sets it needs itself)
    if cfg.shard == 1 % cfg.nshards {
        rep.begin(10_000, &J::obj().set("stage", "algebra"));
        let mut get = |k: &str| -> Option<RangeSet> {
            if let Some(s) = engine_sets.get(k) {
                return Some(s.clone());
            }
            let s = scan.set(&format!("\\p{{{}}}", k), "u").ok()?;
            engine_sets.insert(k.to_string(), s.clone());
            Some(s)
        };
        let mut check = |rep: &mut Report, name: &str, ok: bool, detail: String| {
            rep.inc("algebra_identities");
            rep.eval(fnv64(name.as_bytes()), true);
            if !ok {
                rep.violation(violation("C11", &format!("L2: algebraic identity fails: {}", name), J::obj().set("identity", name).set("check", "c11"), detail, "identity holds".into()));
            }
        };
        // gc leaves partition the scalar values (surrogates are not in a UTF-8 haystack)
        let mut union = RangeSet::new();
        let mut total: u64 = 0;
        for leaf in props::GC_LEAVES {
            if let Some(s) = get(&format!("gc={}", leaf)) {
                total += s.count();
                union = union.union(&s);
            }
        }
        check(rep, "the 30 leaf general categories partition the scalar values", union == sc && total == sc.count(), format!("union {} cps, sum of sizes {}, scalars {}", union.count(), total, sc.count()));
        for (grp, leaves) in props::GC_GROUPS {
            let mut u = RangeSet::new();
            for l in leaves.iter() {
                if let Some(s) = get(&format!("gc={}", l)) {
                    u = u.union(&s);
                }
            }
            let g = get(&format!("gc={}", grp)).unwrap_or_default();
            check(rep, &format!("gc={} is the union of its leaves", grp), g == u, format!("{} vs {}", g.count(), u.count()));
        }
        // scripts partition
        let mut union = RangeSet::new();
        let mut total = 0u64;
        for (long, _, _) in props::SCRIPTS {
            if let Some(s) = get(&format!("sc={}", long)) {
                total += s.count();
                union = union.union(&s);
            }
        }
        check(rep, "the Script values partition the scalar values", union == sc && total == sc.count(), format!("union {} cps, sum {}, scalars {}", union.count(), total, sc.count()));
        for (long, _, _) in props::SCRIPTS {
            let (Some(s), Some(x)) = (get(&format!("sc={}", long)), get(&format!("scx={}", long))) else { continue };
            if *long == "Common" || *long == "Inherited" {
                check(rep, &format!("scx={} is a subset of sc={}", long, long), x.subtract(&s).is_empty(), format!("{} extra", x.subtract(&s).count()));
            } else if *long != "Unknown" {
                check(rep, &format!("sc={} is a subset of scx={}", long, long), s.subtract(&x).is_empty(), format!("{} missing: [{}]", s.subtract(&x).count(), s.subtract(&x).describe(4)));
            }
        }
        let sub = |a: &str, b: &str, rep: &mut Report, get: &mut dyn FnMut(&str) -> Option<RangeSet>, check: &mut dyn FnMut(&mut Report, &str, bool, String)| {
            if let (Some(x), Some(y)) = (get(a), get(b)) {
                let d = x.subtract(&y);
                check(rep, &format!("{} is a subset of {}", a, b), d.is_empty(), format!("{} code points outside: [{}]", d.count(), d.describe(4)));
            }
        };
        for (a, b) in [
            ("gc=Lu", "Uppercase"), ("Uppercase", "Cased"), ("gc=Ll", "Lowercase"), ("Lowercase", "Cased"), ("gc=Lt", "Cased"), ("gc=L", "Alphabetic"), ("gc=Nl", "Alphabetic"), ("XID_Start", "ID_Start"), ("ID_Start", "ID_Continue"),
            ("XID_Continue", "ID_Continue"), ("XID_Start", "XID_Continue"), ("gc=Zs", "White_Space"), ("gc=Zl", "White_Space"), ("gc=Zp", "White_Space"), ("Emoji_Presentation", "Emoji"), ("Emoji_Modifier", "Emoji"), ("Emoji_Modifier_Base", "Emoji"),
            ("ASCII_Hex_Digit", "Hex_Digit"), ("ASCII_Hex_Digit", "ASCII"), ("gc=Sm", "Math"), ("gc=Pd", "Dash"), ("Unified_Ideograph", "Ideographic"), ("gc=Nd", "ID_Continue"), ("gc=Mn", "Case_Ignorable"),
            ("gc=Cf", "Case_Ignorable"), ("Regional_Indicator", "Emoji"), ("Emoji", "Extended_Pictographic_or_Emoji_Component_superset"), ("Changes_When_Lowercased", "Changes_When_Casemapped"), ("Changes_When_Uppercased", "Changes_When_Casemapped"),
            ("Changes_When_Titlecased", "Changes_When_Casemapped"), ("Changes_When_Casemapped", "Cased_or_related"), ("Noncharacter_Code_Point", "gc=Cn"), ("Variation_Selector", "Default_Ignorable_Code_Point"), ("Join_Control", "Default_Ignorable_Code_Point"),
            ("Pattern_White_Space", "White_Space_or_related"), ("gc=Cs", "gc=C"), ("Grapheme_Extend", "gc=M_or_related"), ("Soft_Dotted", "Alphabetic_or_related"), ("Quotation_Mark", "gc=P_or_related"), ("Radical", "gc=So"), ("IDS_Binary_Operator", "gc=So"), ("IDS_Trinary_Operator", "gc=So"), ("Logical_Order_Exception", "gc=Lo"), ("Extender", "ID_Continue_or_related"), ("Sentence_Terminal", "Terminal_Punctuation_or_related"), ("gc=Nd", "gc=N"), ("Bidi_Control", "gc=Cf"), ("Deprecated", "Any"),
        ] {
            if b.contains("_or_") {
                continue;
            }
            sub(a, b, rep, &mut get, &mut check);
        }
        if let (Some(any), Some(ascii), Some(assigned), Some(cn)) = (get("Any"), get("ASCII"), get("Assigned"), get("gc=Cn")) {
            check(rep, "Any is every scalar value", any == sc, format!("{}", any.count()));
            check(rep, "ASCII is 0..7F", ascii == RangeSet::from_range(0, 0x7F), ascii.describe(4));
            check(rep, "Assigned is the complement of gc=Cn", assigned == sc.subtract(&cn), format!("{} vs {}", assigned.count(), sc.subtract(&cn).count()));
        }
        // L1 for XID via unicode-ident 17.0
        #[cfg(feature = "uni")]
        for (name, f) in [("XID_Start", unicode_ident::is_xid_start as fn(char) -> bool), ("XID_Continue", unicode_ident::is_xid_continue as fn(char) -> bool)] {
            if let Some(s) = get(name) {
                let mut v = Vec::new();
                for c in 0..=MAX_CP {
                    if let Some(ch) = char::from_u32(c) {
                        if f(ch) {
                            v.push((c, c));
                        }
                    }
                }
                let want = RangeSet::from_ranges(v);
                rep.inc("layer.L1_exact_unicode17");
                let (o, e) = diff_text(&s, &want);
                check(rep, &format!("{} equals unicode-ident 1.0.24 (Unicode 17.0)", name), s == want, format!("{} vs {}", o, e));
            }
        }
    }

    // ---- names that must be rejected
    if cfg.shard == 2 % cfg.nshards {
        rep.begin(20_000, &J::obj().set("stage", "rejected_names"));
        let mut bad: Vec<String> = Vec::new();
        for (long, aliases) in props::BINARY {
            bad.push(long.to_lowercase());
            bad.push(long.to_uppercase());
            bad.push(long.replace('_', ""));
            bad.push(long.replace('_', " "));
            bad.push(long.replace('_', "-"));
            bad.push(format!("{}=Yes", long));
            bad.push(format!("{}=True", long));
            bad.push(format!("Is{}", long));
            bad.push(format!(" {}", long));
            bad.push(format!("{} ", long));
            for a in aliases.iter() {
                bad.push(a.to_lowercase());
                bad.push(a.to_uppercase());
            }
        }
        for (long, aliases) in props::GENERAL_CATEGORY {
            bad.push(format!("gc={}", long.to_lowercase()));
            bad.push(format!("GC={}", long));
            bad.push(format!("general_category={}", long));
            bad.push(format!("sc={}", long));
            bad.push(format!("scx={}", aliases[0]));
            bad.push(format!("gc ={}", long));
            bad.push(format!("gc= {}", long));
            bad.push(format!("{}=", long));
            bad.push(long.replace('_', ""));
            bad.push(format!("Is{}", aliases[0]));
        }
        for (long, aliases, _) in props::SCRIPTS {
            bad.push(long.to_string()); // a script value needs sc= / scx=
            bad.push(aliases[0].to_string());
            bad.push(format!("gc={}", long));
            bad.push(format!("sc={}", long.to_lowercase()));
            bad.push(format!("sc={}", aliases[0].to_uppercase()));
            bad.push(format!("script={}", long));
            bad.push(format!("Scx={}", long));
            bad.push(format!("In{}", long));
            bad.push(format!("Is{}", long));
            bad.push(format!("Block={}", long));
            bad.push(format!("blk={}", long));
        }
        // a value spelled like a lowercase or uppercase variant may coincide with another valid name
        let valid: std::collections::HashSet<String> = values().iter().flat_map(|v| v.spellings.clone()).collect();
        for extra in [
            "", "=", "gc", "sc", "scx", "gc=", "sc=", "scx=", "General_Category", "Script", "Script_Extensions", "Block=Basic_Latin", "blk=ASCII", "Age=6.0", "age=V6_0", "Line_Break=Alphabetic", "lb=AL", "Other_Alphabetic", "Other_Lowercase", "Other_Uppercase", "Other_Math",
            "Other_ID_Start", "Other_ID_Continue", "Other_Grapheme_Extend", "Other_Default_Ignorable_Code_Point", "Grapheme_Link", "Hyphen", "Prepended_Concatenation_Mark", "IDS_Unary_Operator", "ID_Compat_Math_Start", "ID_Compat_Math_Continue", "InCB", "Composition_Exclusion",
            "Full_Composition_Exclusion", "Expands_On_NFC", "Expands_On_NFD", "Expands_On_NFKC", "Expands_On_NFKD", "FC_NFKC_Closure", "Changes_When_NFKC_Casefolded=Y", "Numeric_Type=Decimal", "nt=De", "Bidi_Class=L", "bc=L", "Canonical_Combining_Class=0", "ccc=0", "East_Asian_Width=W",
            "Hangul_Syllable_Type=L", "Joining_Type=D", "Word_Break=ALetter", "Sentence_Break=Lower", "Grapheme_Cluster_Break=Extend", "Indic_Syllabic_Category=Vowel", "Vertical_Orientation=U", "Name=LATIN", "na=A", "L&", "LC&", "Lu|Ll", "^Lu", "!Lu", "Lu,Ll", "any", "ANY", "ascii", "assigned", "Latin", "Greek", "Han", "latn", "Zzzz", "Zyyy",
            "gc=Any", "gc=ASCII", "gc=Assigned", "sc=Any", "General_Category=Alphabetic", "Script=Lu", "Script_Extensions=L", "sc=Qaaa", "sc=Zsym", "sc=Zmth", "sc=Zxxx", "sc=Zsye", "sc=Latf", "sc=Hans", "sc=Hant", "sc=Jpan", "sc=Kore", "sc=Root", "sc=Katakana_Or_Hiragana_", "Emoji_Keycap", "RGI", "Emoji_Flag_Sequence",
        ] {
            bad.push(extra.to_string());
        }
        // structural near misses of name=value: chained names, doubled / misplaced '=', a value in
        // name position, a binary property as the value of a non-binary one
        {
            let names = ["gc", "General_Category", "sc", "Script", "scx", "Script_Extensions"];
            let vals = [("gc", "Lu"), ("gc", "Uppercase_Letter"), ("sc", "Greek"), ("sc", "Grek"), ("scx", "Latin"), ("scx", "Latn")];
            for n1 in names {
                for (n2, val) in vals {
                    bad.push(format!("{}={}={}", n1, n2, val));
                    bad.push(format!("{}={}={}", n1, n1, val));
                    bad.push(format!("{}=={}", n1, val));
                    bad.push(format!("={}={}", n2, val));
                    bad.push(format!("{}={}=", n2, val));
                    bad.push(format!("{}={}={}", n2, val, val));
                    bad.push(format!("{}={}", val, n2));
                    bad.push(format!("{}={}={}={}", n1, n2, n2, val));
                }
                bad.push(format!("{}=Alphabetic", n1));
                bad.push(format!("{}=ASCII=Lu", n1));
                bad.push(format!("Alphabetic={}=Lu", n1));
            }
        }
        // UCD aliases and properties that ECMAScript does not admit (PropertyAliases.txt short names
        // of non-ES properties, and extra aliases of ES properties such as WSpace for White_Space)
        for extra in [
            "WSpace", "wspace", "W_Space", "WS", "Comp_Ex", "CE", "XO_NFC", "XO_NFD", "XO_NFKC", "XO_NFKD", "OAlpha", "ODI", "OGr_Ext", "OIDC", "OIDS", "OLower", "OMath", "OUpper", "PCM", "Gr_Link", "IDSU", "ID_Compat_Math_Start", "EqUIdeo", "kEH_NoRotate",
            "NFC_QC", "NFD_QC", "NFKC_QC", "NFKD_QC", "NFKC_CF", "NFKC_SCF", "IDNA", "InSC", "InPC", "jg", "jt", "lb", "nt", "nv", "bpb", "bpt", "bmg", "cf", "cjkAccountingNumeric", "dm", "dt", "ea", "GCB", "hst", "isc", "JSN", "lc", "scf", "slc", "stc", "suc", "tc", "uc", "SB", "WB", "vo", "age", "blk", "ccc", "na", "na1",
            "Lowercase_Letter_", "L_", "Latin1", "ASCII_", "Any_", "Hex_", "Ext_", "Radical_", "Upper_", "Lower_", "Alpha_", "space_", "Space", "SPACE", "White_space", "white_space", "Whitespace", "WhiteSpace",
        ] {
            bad.push(extra.to_string());
        }
        // abbreviations derived from the ES names that happen to be real Unicode property names or
        // aliases (regex-syntax accepts them under loose matching) but are not in the ES tables
        let mut derived: Vec<String> = Vec::new();
        for (long, _) in props::BINARY {
            let words: Vec<&str> = long.split('_').collect();
            if words.len() >= 2 {
                let initials: String = words.iter().map(|w| w.chars().next().unwrap()).collect();
                derived.push(initials.clone());
                derived.push(format!("{}{}", words[0].chars().next().unwrap(), words[1..].join("")));
                derived.push(format!("{}_{}", words[0].chars().next().unwrap(), words[1..].join("_")));
                derived.push(format!("{}{}", &words[0][..words[0].len().min(2)], words[1..].iter().map(|w| w.chars().next().unwrap()).collect::<String>()));
            }
            derived.push(long.chars().take(3).collect());
            derived.push(long.chars().take(4).collect());
        }
        for d in derived {
            if uniref::rs16_class(&format!("\\p{{{}}}", d).replace("\\\\", "\\")).is_some() {
                bad.push(d);
            }
        }
        bad.sort();
        bad.dedup();
        for b in &bad {
            if valid.contains(b) || b.contains("Hrkt") || b.contains("Katakana_Or_Hiragana") {
                continue;
            }
            // string properties are valid bare names under v
            if props::STRING_PROPS.contains(&b.as_str()) {
                continue;
            }
            for fl in ["u", "v"] {
                for pat in [format!("\\p{{{}}}", b), format!("\\P{{{}}}", b), format!("[\\p{{{}}}]", b)] {
                    rep.inc("rejected_name_probes");
                    rep.eval(fnv64(format!("{}|{}", pat, fl).as_bytes()), true);
                    if compiles(&pat, fl) {
                        rep.violation(violation("C11", "a property name or value outside the ECMAScript tables is accepted", J::obj().set("pattern", pat.as_str()).set("pattern_cps", J::Arr(engine::to_cps(&pat).iter().map(|&c| J::from(c)).collect())).set("flags", fl).set("check", "c11"), "Ok".into(), "Err".into()));
                    }
                }
            }
        }
        // without u / v, \p is an identity escape: /\p{Lu}/ matches the text "p{Lu}"
        rep.inc("rejected_name_probes");
        if matches_whole("^\\p{Lu}$", "", "p{Lu}") != Some(true) || matches_whole("^\\p{Lu}$", "", "A") != Some(false) {
            rep.violation(violation("C11", "\\p without u/v must be an identity escape", J::obj().set("pattern", "^\\p{Lu}$").set("flags", "").set("check", "c11"), "does not match the text p{Lu}".into(), "matches p{Lu}, not A".into()));
        }
    }

    // ---- properties of strings (v only): names and structure
    if cfg.shard == 3 % cfg.nshards {
        rep.begin(30_000, &J::obj().set("stage", "string_properties"));
        let uncontested = ["Basic_Emoji", "Emoji_Keycap_Sequence", "RGI_Emoji"];
        for n in uncontested {
            rep.inc("string_property_probes");
            let p = format!("\\p{{{}}}", n);
            if !compiles(&p, "v") || !compiles(&format!("[\\p{{{}}}]", n), "v") {
                rep.violation(violation("C11", "a property of strings is rejected under v", J::obj().set("pattern", p.as_str()).set("flags", "v").set("check", "c11"), "Err".into(), "Ok".into()));
            }
            for (pat, fl) in [(p.clone(), "u"), (format!("\\P{{{}}}", n), "v"), (format!("[^\\p{{{}}}]", n), "v"), (format!("[\\P{{{}}}]", n), "v"), (format!("[\\p{{{}}}]", n), "u"), (format!("\\p{{gc={}}}", n), "v"), (format!("\\p{{{}=Yes}}", n), "v")] {
                rep.inc("string_property_probes");
                rep.eval(fnv64(format!("{}|{}", pat, fl).as_bytes()), true);
                if compiles(&pat, fl) {
                    rep.violation(violation("C11", "a property of strings is accepted where ECMAScript forbids it (without v, negated, or with a property name)", J::obj().set("pattern", pat.as_str()).set("flags", fl).set("check", "c11"), "Ok".into(), "Err".into()));
                }
            }
        }
        // The four sequence sub-properties are spelled RGI_<X>_Sequence in the ECMAScript table
        // and RGI_Emoji_<X>_Sequence in UTS #51 / the emoji data files; this check makes no claim
        // about which spelling must be accepted and uses whichever the engine accepts.
        let pick = |a: &str, b: &str| -> Option<String> {
            if compiles(&format!("\\p{{{}}}", a), "v") {
                Some(a.to_string())
            } else if compiles(&format!("\\p{{{}}}", b), "v") {
                Some(b.to_string())
            } else {
                None
            }
        };
        let flag = pick("RGI_Flag_Sequence", "RGI_Emoji_Flag_Sequence");
        let modi = pick("RGI_Modifier_Sequence", "RGI_Emoji_Modifier_Sequence");
        let tag = pick("RGI_Tag_Sequence", "RGI_Emoji_Tag_Sequence");
        let zwj = pick("RGI_ZWJ_Sequence", "RGI_Emoji_ZWJ_Sequence");
        for (n, v) in [("flag", &flag), ("modifier", &modi), ("tag", &tag), ("zwj", &zwj)] {
            if v.is_none() {
                rep.violation(violation("C11", "a property of strings is not available under either spelling", J::obj().set("property", n).set("check", "c11"), "Err".into(), "Ok".into()));
            }
        }
        let is = |name: &str, s: &str| matches_whole(&format!("^\\p{{{}}}$", name), "v", s) == Some(true);
        let mut sv = |rep: &mut Report, what: &str, s: &str, ok: bool| {
            rep.inc("string_membership_questions");
            rep.eval(fnv64(format!("{}|{}", what, s).as_bytes()), true);
            if !ok {
                rep.violation(violation("C11", what, J::obj().set("string", s).set("string_cps", J::Arr(s.chars().map(|c| J::from(c as u32)).collect())).set("check", "c11"), "membership differs".into(), "as stated".into()));
            }
        };
        // Emoji_Keycap_Sequence: exactly the 12 closed-form strings
        for c in "#*0123456789".chars() {
            sv(rep, "Emoji_Keycap_Sequence must contain <c, FE0F, 20E3> for c in #*0-9", &format!("{}\u{FE0F}\u{20E3}", c), is("Emoji_Keycap_Sequence", &format!("{}\u{FE0F}\u{20E3}", c)));
            sv(rep, "Emoji_Keycap_Sequence must not contain <c, 20E3>", &format!("{}\u{20E3}", c), !is("Emoji_Keycap_Sequence", &format!("{}\u{20E3}", c)));
            sv(rep, "Emoji_Keycap_Sequence must not contain <c>", &c.to_string(), !is("Emoji_Keycap_Sequence", &c.to_string()));
            sv(rep, "RGI_Emoji must contain the keycap sequences", &format!("{}\u{FE0F}\u{20E3}", c), is("RGI_Emoji", &format!("{}\u{FE0F}\u{20E3}", c)));
        }
        for c in "aA+-/:".chars() {
            sv(rep, "Emoji_Keycap_Sequence must not contain other bases", &format!("{}\u{FE0F}\u{20E3}", c), !is("Emoji_Keycap_Sequence", &format!("{}\u{FE0F}\u{20E3}", c)));
        }
        // flags: two regional indicators; count plausible; RGI_Emoji is a superset
        if let Some(flag) = &flag {
            let mut n = 0;
            for a in 0x1F1E6u32..=0x1F1FF {
                for b in 0x1F1E6u32..=0x1F1FF {
                    let s: String = [a, b].iter().map(|&c| char::from_u32(c).unwrap()).collect();
                    let inflag = is(flag, &s);
                    if inflag {
                        n += 1;
                        sv(rep, "RGI_Emoji must contain every flag sequence", &s, is("RGI_Emoji", &s));
                    } else if (a + b) % 7 == 0 {
                        sv(rep, "RGI_Emoji must not contain a regional-indicator pair that is not a flag sequence", &s, !is("RGI_Emoji", &s));
                    }
                }
            }
            rep.add("flag_sequences", n);
            sv(rep, "the number of flag sequences must be plausible (between 255 and 270 of the 676 regional-indicator pairs)", "count", (255..=270).contains(&n));
            sv(rep, "a flag sequence is two regional indicators", "US", !is(flag, "US"));
            sv(rep, "a single regional indicator is not a flag", "\u{1F1FA}", !is(flag, "\u{1F1FA}"));
        }
        // tags: England, Scotland, Wales
        if let Some(tag) = &tag {
            for t in ["gbeng", "gbsct", "gbwls"] {
                let mut s = String::from("\u{1F3F4}");
                for ch in t.chars() {
                    s.push(char::from_u32(0xE0000 + ch as u32).unwrap());
                }
                s.push('\u{E007F}');
                sv(rep, "RGI tag sequences are England, Scotland and Wales", &s, is(tag, &s) && is("RGI_Emoji", &s));
            }
            let mut s = String::from("\u{1F3F4}");
            for ch in "usca".chars() {
                s.push(char::from_u32(0xE0000 + ch as u32).unwrap());
            }
            s.push('\u{E007F}');
            sv(rep, "other subdivision flags are not RGI", &s, !is(tag, &s));
        }
        // modifier sequences = Emoji_Modifier_Base x Emoji_Modifier (the engine's own sets)
        if let (Some(modi), Ok(base), Ok(mods)) = (&modi, scan.set("\\p{Emoji_Modifier_Base}", "u"), scan.set("\\p{Emoji_Modifier}", "u")) {
            // emoji-sequences lists base x modifier for (nearly) every Emoji_Modifier_Base; a base
            // is either listed with all five modifiers or with none, and members are RGI_Emoji.
            let mut n = 0;
            let mut members = 0;
            for b in base.iter() {
                let mut k = 0;
                for m in mods.iter() {
                    let s: String = [b, m].iter().map(|&c| char::from_u32(c).unwrap()).collect();
                    n += 1;
                    if is(modi, &s) {
                        k += 1;
                        members += 1;
                        sv(rep, "an RGI modifier sequence is also RGI_Emoji", &s, is("RGI_Emoji", &s));
                    }
                }
                sv(rep, "a modifier base forms a sequence with all five modifiers or with none", &format!("U+{:X}", b), k == 0 || k == mods.count());
            }
            rep.add("modifier_sequences", members);
            sv(rep, "at least 95% of Emoji_Modifier_Base x Emoji_Modifier are RGI modifier sequences", "count", members * 100 >= n * 95);
            sv(rep, "a base that is not Emoji_Modifier_Base does not form a modifier sequence", "a\u{1F3FB}", !is(modi, "a\u{1F3FB}"));
        }
        // Basic_Emoji singles: Emoji_Presentation minus regional indicators; with FE0F: text-default emoji
        if let (Ok(epres), Ok(emoji), Ok(ri)) = (scan.set("\\p{Emoji_Presentation}", "u"), scan.set("\\p{Emoji}", "u"), scan.set("\\p{Regional_Indicator}", "u")) {
            let basic_single = scan.set("[\\p{Basic_Emoji}&&\\p{Any}]", "v");
            match basic_single {
                Ok(bs) => {
                    let want = epres.subtract(&ri);
                    rep.inc("string_membership_questions");
                    if bs != want {
                        let (o, e) = diff_text(&bs, &want);
                        rep.violation(violation("C11", "single-character members of Basic_Emoji differ from Emoji_Presentation minus Regional_Indicator", J::obj().set("pattern", "[\\p{Basic_Emoji}&&\\p{Any}]").set("flags", "v").set("check", "c11"), o, e));
                    }
                }
                Err(e) => rep.note(format!("Basic_Emoji singles scan: {}", e)),
            }
            let keycap_bases = RangeSet::from_cps("#*0123456789".chars().map(|c| c as u32));
            let text_default = emoji.subtract(&epres).subtract(&keycap_bases);
            let mut n = 0;
            for c in text_default.iter() {
                let s = format!("{}\u{FE0F}", char::from_u32(c).unwrap());
                n += 1;
                sv(rep, "<c, FE0F> is Basic_Emoji for every text-default emoji c", &s, is("Basic_Emoji", &s) && is("RGI_Emoji", &s));
            }
            for c in epres.iter().take(40) {
                let s = format!("{}\u{FE0F}", char::from_u32(c).unwrap());
                sv(rep, "<c, FE0F> is not Basic_Emoji for an emoji-presentation character", &s, !is("Basic_Emoji", &s));
            }
            rep.add("basic_emoji_with_vs16", n);
        }
        // ZWJ sequences: members contain ZWJ, and are RGI_Emoji; a few well-known ones
        if let Some(zwj) = &zwj {
            for s in ["\u{1F468}\u{200D}\u{1F469}\u{200D}\u{1F467}", "\u{1F3F3}\u{FE0F}\u{200D}\u{1F308}", "\u{1F441}\u{FE0F}\u{200D}\u{1F5E8}\u{FE0F}", "\u{1F9D1}\u{200D}\u{1F4BB}"] {
                sv(rep, "well-known RGI ZWJ sequences are members", s, is(zwj, s) && is("RGI_Emoji", s));
            }
            sv(rep, "a ZWJ sequence of non-emoji is not a member", "a\u{200D}b", !is(zwj, "a\u{200D}b"));
        }
        // longest-first: /^\p{RGI_Emoji}/ on a keycap sequence followed by text takes the whole sequence
        if let Guarded::Ok(Ok(re)) = engine::compile(&engine::to_cps("\\p{RGI_Emoji}"), Flags::from_str("v"), false) {
            let s = "\u{1F468}\u{200D}\u{1F469}\u{200D}\u{1F467}x";
            if let Guarded::Ok(Some(m)) = engine::find_first(&re, s, 0, Api::Utf8, 10_000_000) {
                sv(rep, "strings are tried longest first", s, m.range == (0, s.len() - 1));
            }
        }
    }
    if rep.samples.len() < rep.max_samples {
        rep.sample(J::obj().set("example", "\\p{scx=Grek}, \\p{Script_Extensions=Greek}, \\p{scx=Greek}, \\p{Script_Extensions=Grek}: each scanned over all 1,112,064 scalar values, sets must be equal; \\P is the complement; on code points assigned in 16.0 equal to regex-syntax's 16.0 set modulo pinned drift"));
    }
}

/// Second stage (utf16 build): surrogate code points cannot occur in a `&str` haystack, so the
/// main stage never sees whether a property set contains them. Through the UCS-2 entry point
/// every unit is a code point; each property value is evaluated on all 2048 surrogates, where
/// Unicode fixes the answer: gc=Cs (hence gc=C), sc/scx=Unknown, Any and Assigned -- and nothing else.
#[cfg(feature = "utf16")]
pub fn run_u16(cfg: &Cfg, rep: &mut Report) {
    if cfg.replay.is_some() {
        return;
    }
    let units: Vec<u16> = (0xD7FFu16..=0xE000).collect();
    let vals = values();
    for (vi, val) in vals.iter().enumerate() {
        if !cfg.mine(vi as u64) {
            continue;
        }
        if vi % 16 == 0 || vi < 16 {
            rep.begin(vi as u64 + 1, &J::obj().set("property", val.canonical.as_str()));
        }
        let holds_surrogates = matches!(val.key.as_str(), "Any" | "Assigned" | "gc=Cs" | "gc=C" | "sc=Unknown" | "scx=Unknown");
        for (neg, tmpl) in [(false, "\\p{X}"), (true, "\\P{X}"), (false, "[\\p{X}]"), (true, "[^\\p{X}]")] {
            let pat = tmpl.replace("X", &val.canonical);
            for flags in ["u", "v"] {
                let re = match engine::compile(&engine::to_cps(&pat), Flags::from_str(flags), false) {
                    Guarded::Ok(Ok(re)) => re,
                    _ => {
                        rep.inc("skipped.does_not_compile");
                        continue;
                    }
                };
                let r = engine::guarded(50_000_000, || re.find_from_ucs2(&units, 0).map(|m| m.range()).collect::<Vec<_>>());
                let Guarded::Ok(ms) = r else {
                    rep.inconclusive("fuel_or_panic");
                    continue;
                };
                let matched: std::collections::HashSet<u16> = ms.iter().filter(|r| r.end == r.start + 1).map(|r| units[r.start]).collect();
                rep.eval(fnv64(format!("sur|{}|{}", pat, flags).as_bytes()), true);
                rep.inc("surrogate_probes");
                let bad = (0xD800u16..=0xDFFF).find(|u| matched.contains(u) != (holds_surrogates != neg));
                if let Some(u) = bad {
                    rep.violation(violation(
                        "C11",
                        "a property escape evaluated on a surrogate code point (UCS-2 entry point) disagrees with Unicode",
                        J::obj().set("pattern", pat.as_str()).set("flags", flags).set("unit", u as u32).set("check", "c11u16"),
                        format!("U+{:04X} matched = {}", u, matched.contains(&u)),
                        format!("surrogates are members of exactly gc=Cs, gc=C, sc/scx=Unknown, Any, Assigned: matched = {}", holds_surrogates != neg),
                    ));
                }
            }
        }
    }
}
