//! Monitors for the `find_from_utf16` / `find_from_ucs2` entry points on ARBITRARY u16 text —
//! well-formed, with lone, reversed and trailing surrogates — for the two behavioural properties
//! whose mechanisms have separate UTF-16 code (position stepping with and without decoding):
//!
//!   c09u16  C09: the iterator equals unfold(first match, advance rule), where "one character" is
//!           one code unit, or two for a high surrogate directly followed by a low one (UTF-16
//!           entry point only); the first match from a cursor is consistent across cursors
//!           (first(c) = the match at the least matching position >= c); and, on text whose
//!           meaning the properties fix (well-formed UTF-16; UCS-2 without surrogate units), the
//!           sequence equals the reference model's lastIndex iteration over the decoded text.
//!   c05u16  C05: first-match search finishes within A + B x (reference steps).
//!
//! The reference model runs over the decoded text: a proper pair is one code point (UTF-16) and
//! every other unit, surrogate or not, is a code point of its own; for UCS-2 every unit is one.
//! For c05u16 the reference only supplies a cost scale, so it is used on ill-formed text too.
//! Patterns with property escapes never use the reference here (its tables come from
//! `char`-based sources and do not list surrogates).

use super::common::*;
use crate::engine::{self, EMatch, Guarded};
use crate::esref::{self, Flags, RefLimits, RefOutcome};
use crate::gen::{self, GenCfg};
use crate::json::J;
use crate::report::{Cfg, Report};
use crate::rng::{fnv64, Rng};

#[derive(Clone, Copy, PartialEq, Eq)]
pub enum Mode {
    Steps,
    Iter,
    /// C14's robustness clause on a program stream: any start offset (also between the halves of
    /// a surrogate pair), any text: no panic, termination within the step budget, ranges inside
    /// the slice and in increasing order.
    Robust,
    /// The same monitor as C06's u16 clause (reported as C06; run under the sanitizers too).
    RobustMem,
}

const FUEL_ITER: u64 = 3_000_000;
const A: u64 = 10_000;
const B: u64 = 1_000;
const REF_STEPS: u64 = 20_000;
const FUEL_STEPS: u64 = A + B * REF_STEPS;

struct Dec {
    cps: Vec<u32>,
    /// unit offset of each code point, plus the length
    off: Vec<usize>,
}

fn is_hi(x: u16) -> bool {
    (0xD800..0xDC00).contains(&x)
}
fn is_lo(x: u16) -> bool {
    (0xDC00..0xE000).contains(&x)
}

fn decode(text: &[u16], pair: bool) -> Dec {
    let mut cps = Vec::new();
    let mut off = Vec::new();
    let mut i = 0;
    while i < text.len() {
        off.push(i);
        if pair && is_hi(text[i]) && i + 1 < text.len() && is_lo(text[i + 1]) {
            cps.push(0x10000 + (((text[i] as u32) - 0xD800) << 10) + ((text[i + 1] as u32) - 0xDC00));
            i += 2;
        } else {
            cps.push(text[i] as u32);
            i += 1;
        }
    }
    off.push(text.len());
    Dec { cps, off }
}

fn first16(re: &regress::Regex, text: &[u16], start: usize, ucs2: bool, fuel: u64) -> Guarded<Option<EMatch>> {
    engine::guarded(fuel, || if ucs2 { re.find_from_ucs2(text, start).next().map(|m| EMatch::from(&m)) } else { re.find_from_utf16(text, start).next().map(|m| EMatch::from(&m)) })
}

/// Drive the iterator by hand: collect until None, then call next() twice more.
fn history16(re: &regress::Regex, text: &[u16], start: usize, ucs2: bool) -> Guarded<(Vec<EMatch>, bool)> {
    engine::guarded(FUEL_ITER, || {
        let mut out = Vec::new();
        let mut absorbing = true;
        macro_rules! drive {
            ($it:expr) => {{
                let mut it = $it;
                let mut ended = true;
                while let Some(m) = it.next() {
                    out.push(EMatch::from(&m));
                    if out.len() > engine::MAX_MATCHES {
                        ended = false;
                        break;
                    }
                }
                for _ in 0..(if ended { 2 } else { 0 }) {
                    if it.next().is_some() {
                        absorbing = false;
                    }
                }
            }};
        }
        if ucs2 {
            drive!(re.find_from_ucs2(text, start))
        } else {
            drive!(re.find_from_utf16(text, start))
        }
        (out, absorbing)
    })
}

struct Prepared {
    re: regress::Regex,
    pat: Option<esref::Pattern>,
}

enum V {
    Held(bool),
    Inconclusive(&'static str),
    Violated { property: &'static str, what: String, observed: String, expected: String },
}

fn to_units(m: &esref::MatchResult, d: &Dec) -> EMatch {
    EMatch { range: (d.off[m.start], d.off[m.end]), caps: m.caps.iter().map(|c| c.map(|(a, b)| (d.off[a], d.off[b]))).collect() }
}

fn case_iter(p: &Prepared, text: &[u16], start: usize, ucs2: bool, rep: &mut Report) -> V {
    let name = if ucs2 { "find_from_ucs2" } else { "find_from_utf16" };
    let d = decode(text, !ucs2);
    // A start between the halves of a pair: which characters the text then consists of is not
    // fixed by any property, but the history invariants and the unfolding (whose cursor rule only
    // looks at the units at the cursor) are; cursor consistency and the reference are skipped.
    let split = start <= text.len() && !d.off.contains(&start);
    let (seq, absorbing) = match history16(&p.re, text, start, ucs2) {
        Guarded::Ok(x) => x,
        Guarded::Fuel => return V::Inconclusive("fuel"),
        Guarded::Panic(m) => return V::Violated { property: "C14", what: format!("{} panicked on u16 input", name), observed: m, expected: "no panic".into() },
    };
    let viol = |what: String, observed: String, expected: String| V::Violated { property: "C09", what, observed, expected };
    if !absorbing {
        return viol(format!("{}: next() returned Some after None", name), "Some after None".into(), "None forever".into());
    }
    if seq.len() > d.cps.len() + 1 + split as usize {
        return viol(format!("{}: more matches than character positions plus one", name), engine::show_matches(&seq), format!("at most {}", d.cps.len() + 1));
    }
    if start > text.len() && !seq.is_empty() {
        return viol(format!("{}: a start beyond the end yielded matches", name), engine::show_matches(&seq), "nothing".into());
    }
    for (k, m) in seq.iter().enumerate() {
        let inside = |r: (usize, usize)| r.0 <= r.1 && r.1 <= text.len();
        if !inside(m.range) || !m.caps.iter().flatten().all(|c| inside(*c)) {
            return V::Violated { property: "C14", what: format!("{}: a reported range is outside the slice", name), observed: engine::show_matches(&seq), expected: "0 <= start <= end <= len".into() };
        }
        if m.range.0 < start {
            return viol(format!("{}: match starts before the start offset", name), engine::show_matches(&seq), format!("all starts >= {}", start));
        }
        if k > 0 {
            let prev = &seq[k - 1];
            if !(prev.range.0 < m.range.0 && prev.range.1 <= m.range.0) {
                return viol(format!("{}: matches not strictly increasing / overlapping", name), engine::show_matches(&seq), "increasing, non-overlapping".into());
            }
        }
    }
    // unfold with a fresh first match per cursor
    let mut model: Vec<EMatch> = Vec::new();
    let mut cursor = start;
    let mut stepped_over_lone = false;
    loop {
        if cursor > text.len() || model.len() > engine::MAX_MATCHES {
            break;
        }
        let first = match first16(&p.re, text, cursor, ucs2, FUEL_ITER) {
            Guarded::Ok(f) => f,
            Guarded::Fuel => return V::Inconclusive("fuel"),
            Guarded::Panic(m) => return V::Violated { property: "C14", what: format!("{} panicked on u16 input", name), observed: m, expected: "no panic".into() },
        };
        let Some(m) = first else { break };
        cursor = if m.range.1 > m.range.0 {
            m.range.1
        } else {
            let e = m.range.1;
            let paired = !ucs2 && e + 1 < text.len() && is_hi(text[e]) && is_lo(text[e + 1]);
            if e < text.len() && (is_hi(text[e]) || is_lo(text[e])) && !paired {
                stepped_over_lone = true;
            }
            e + if paired { 2 } else { 1 }
        };
        model.push(m);
    }
    if model != seq {
        return viol(format!("{}: iterator sequence differs from unfold(first match, advance rule)", name), engine::show_matches(&seq), engine::show_matches(&model));
    }
    rep.inc(&format!("histories.{}", name));
    if stepped_over_lone {
        rep.inc("histories_advancing_past_a_lone_surrogate");
    }
    // Cursor consistency: whether the pattern matches at a position does not depend on the
    // cursor, so first(c) = the match at min{p >= c : a match starts at p}. Hence for boundaries
    // c < c2: if first(c2) exists so does first(c), and it starts no later; and if first(c)
    // starts at or after c2 then first(c2) is the very same match.
    if split {
        rep.inc("histories_from_a_start_inside_a_pair");
        return V::Held(!seq.is_empty());
    }
    if start <= text.len() {
        let bounds: Vec<usize> = d.off.iter().copied().filter(|&o| o >= start).collect();
        let mut firsts: Vec<Option<EMatch>> = Vec::new();
        for &c in &bounds {
            match first16(&p.re, text, c, ucs2, FUEL_ITER) {
                Guarded::Ok(f) => firsts.push(f),
                Guarded::Fuel => return V::Inconclusive("fuel"),
                Guarded::Panic(m) => return V::Violated { property: "C14", what: format!("{} panicked on u16 input", name), observed: m, expected: "no panic".into() },
            }
        }
        for k in 0..bounds.len() {
            if let Some(m) = &firsts[k] {
                if m.range.0 < bounds[k] {
                    return viol(format!("{}: the first match from cursor {} starts before the cursor", name, bounds[k]), m.show(), format!("start >= {}", bounds[k]));
                }
            }
            if k + 1 < bounds.len() {
                let (a, b) = (&firsts[k], &firsts[k + 1]);
                let ok = match (a, b) {
                    (None, None) => true,
                    (None, Some(_)) => false,
                    (Some(x), None) => x.range.0 < bounds[k + 1],
                    (Some(x), Some(y)) => x.range.0 <= y.range.0 && (x.range.0 < bounds[k + 1] || x == y),
                };
                if !ok {
                    return viol(
                        format!("{}: cursor {} does not yield the first match at or after it (cursor {} finds another one)", name, bounds[k], bounds[k + 1]),
                        format!("from {}: {} | from {}: {}", bounds[k], show_opt(a), bounds[k + 1], show_opt(b)),
                        "first(c) starts no later than first(c2), and equals it when it starts at or after c2".into(),
                    );
                }
            }
        }
        rep.inc("cursor_consistency_checked");
    }
    let mut nontrivial = !seq.is_empty();
    // The whole sequence against the reference model on the decoded text. Only on well-formed
    // text: what a pattern matches around a lone surrogate (e.g. a backreference to a captured
    // lone high surrogate compared against the first half of a pair) is not claimed by any
    // property, so there the self-consistency oracles above decide alone.
    let claimed = if ucs2 { !text.iter().any(|&x| is_hi(x) || is_lo(x)) } else { !has_lone(text) };
    if let (Some(pat), true, true) = (&p.pat, start <= text.len(), claimed) {
        if pat.features.prop_escapes == 0 {
            let ci = d.off.iter().position(|&o| o == start).unwrap_or(0);
            let (r, _st) = esref::find_all(pat, &d.cps, ci, RefLimits { max_steps: 300_000, max_depth: 20_000 }, engine::MAX_MATCHES);
            match r {
                Ok(ms) => {
                    let expected: Vec<EMatch> = ms.iter().map(|m| to_units(m, &d)).collect();
                    if expected != seq {
                        return viol(format!("{} sequence differs from the reference model's lastIndex iteration over the decoded text", name), engine::show_matches(&seq), engine::show_matches(&expected));
                    }
                    rep.inc("histories_checked_against_reference");
                    nontrivial = !seq.is_empty();
                }
                Err(_) => rep.inconclusive("ref"),
            }
        }
    }
    V::Held(nontrivial)
}

fn case_steps(p: &Prepared, text: &[u16], start: usize, ucs2: bool, rep: &mut Report) -> V {
    let name = if ucs2 { "find_from_ucs2" } else { "find_from_utf16" };
    let Some(pat) = &p.pat else { return V::Inconclusive("reference_rejects") };
    if pat.features.prop_escapes > 0 {
        return V::Inconclusive("property_escape");
    }
    let d = decode(text, !ucs2);
    let Some(ci) = d.off.iter().position(|&o| o == start) else { return V::Inconclusive("start_splits_a_pair") };
    let (ro, st) = esref::exec(pat, &d.cps, ci, RefLimits { max_steps: REF_STEPS, max_depth: 20_000 });
    match ro {
        RefOutcome::Match(_) | RefOutcome::NoMatch => {}
        RefOutcome::Inconclusive(_) => return V::Inconclusive("ref_budget"),
        RefOutcome::Unsupported(_) => return V::Inconclusive("ref_unsupported"),
    }
    let bound = A + B * st.steps;
    #[cfg(feature = "hooks")]
    {
        let saved = engine::hooks::take();
        let r = first16(&p.re, text, start, ucs2, FUEL_STEPS);
        let c = engine::hooks::take();
        crate::report::absorb_hooks(rep, &c);
        crate::report::absorb_hooks(rep, &saved);
        let steps = c.steps();
        let store = c.max_bts.max(c.max_pike_states) as u64;
        match r {
            Guarded::Fuel => {
                return V::Violated {
                    property: "C05",
                    what: format!("{}: the search did not finish within the step bound", name),
                    observed: format!("more than {} engine steps (backtrack store high-water {})", FUEL_STEPS, store),
                    expected: format!("at most {} = {} + {} x {} reference steps", bound, A, B, st.steps),
                }
            }
            Guarded::Panic(m) => return V::Violated { property: "C14", what: format!("{} panicked on u16 input", name), observed: m, expected: "no panic".into() },
            Guarded::Ok(_) => {}
        }
        if steps > bound {
            return V::Violated {
                property: "C05",
                what: format!("{}: engine steps exceed the bound tied to the reference ordered search", name),
                observed: format!("{} engine steps", steps),
                expected: format!("at most {} = {} + {} x {} reference steps", bound, A, B, st.steps),
            };
        }
        if store > (3 + pat.ngroups as u64) * (steps + 1) {
            return V::Violated {
                property: "C05",
                what: format!("{}: backtracking state is larger than the number of steps taken", name),
                observed: format!("store high-water {} with {} steps", store, steps),
                expected: "store <= (3 + groups) x (steps + 1)".into(),
            };
        }
        rep.max("max_engine_steps", steps);
        rep.max("max_store", store);
        rep.max("max_reference_steps", st.steps);
    }
    let _ = (bound, name, rep);
    V::Held(pat.features.quantifiers > 0 && st.steps > 10)
}

/// Set in bounded mode (slow tools): no reference model, small step budget.
static SLOW_TOOL: std::sync::atomic::AtomicBool = std::sync::atomic::AtomicBool::new(false);

fn case_robust(p: &Prepared, text: &[u16], start: usize, ucs2: bool, rep: &mut Report, property: &'static str) -> V {
    let slow = SLOW_TOOL.load(std::sync::atomic::Ordering::Relaxed);
    let name = if ucs2 { "find_from_ucs2" } else { "find_from_utf16" };
    let d = decode(text, !ucs2);
    let split = start <= text.len() && !d.off.contains(&start);
    // A step budget is a verdict only when the reference model says the search is cheap.
    let cheap = match &p.pat {
        _ if slow => false,
        Some(pat) if pat.features.prop_escapes == 0 => {
            let ci = d.off.iter().position(|&o| o >= start).unwrap_or(d.cps.len());
            let (r, st) = esref::find_all(pat, &d.cps, ci, RefLimits { max_steps: REF_STEPS, max_depth: 20_000 }, engine::MAX_MATCHES);
            r.is_ok() && st.steps < REF_STEPS
        }
        _ => false,
    };
    let r = engine::guarded(if slow { 6_000 } else { FUEL_STEPS }, || {
        let mut out = Vec::new();
        if ucs2 {
            for m in p.re.find_from_ucs2(text, start).take(engine::MAX_MATCHES) {
                out.push(EMatch::from(&m));
            }
        } else {
            for m in p.re.find_from_utf16(text, start).take(engine::MAX_MATCHES) {
                out.push(EMatch::from(&m));
            }
        }
        out
    });
    match r {
        Guarded::Ok(ms) => {
            let mut prev_end = 0usize;
            for (j, m) in ms.iter().enumerate() {
                let ok = m.range.0 <= m.range.1 && m.range.1 <= text.len() && m.caps.iter().flatten().all(|c| c.0 <= c.1 && c.1 <= text.len()) && (j == 0 || m.range.0 >= prev_end);
                prev_end = m.range.1;
                if !ok {
                    return V::Violated { property, what: format!("{}: a range reported on arbitrary u16 input is outside the slice or out of order", name), observed: engine::show_matches(&ms), expected: "0 <= start <= end <= len, increasing".into() };
                }
            }
            if start > text.len() && !ms.is_empty() {
                return V::Violated { property, what: format!("{}: a start beyond the end yielded matches", name), observed: engine::show_matches(&ms), expected: "nothing".into() };
            }
            if split {
                rep.inc("robust_cases_with_start_inside_a_pair");
            }
            V::Held(!ms.is_empty())
        }
        Guarded::Fuel => {
            if cheap {
                V::Violated { property, what: format!("{}: search on arbitrary u16 input did not terminate within the step budget", name), observed: format!("more than {} engine steps", FUEL_STEPS), expected: format!("terminates (the reference search over the decoded text needs fewer than {} steps)", REF_STEPS) }
            } else {
                V::Inconclusive("fuel")
            }
        }
        Guarded::Panic(m) => V::Violated { property, what: format!("{} panicked on arbitrary u16 input (panic or failed debug assertion of the crate's own invariants)", name), observed: m, expected: "no panic".into() },
    }
}

fn tweak(g: &mut GenCfg, rng: &mut Rng) {
    let mut a: Vec<u32> = "ab1\n".chars().map(|c| c as u32).collect();
    let extra = [0x10000u32, 0x10400, 0x10428, 0x1F600, 0x10FFFF, 0xE9, 0xFFFF, 0x212A, 0x17F, 0x20E3, 0x10061, 0x10031, 0x1000A];
    for _ in 0..rng.range(1, 3) {
        a.push(*rng.pick(&extra));
    }
    rng.shuffle(&mut a);
    a.truncate(rng.range(2, 4));
    g.alphabet = a;
    g.props = false;
    g.max_depth = rng.range(1, 3);
}

/// u16 texts for a program: sequences of tokens, a token being the encoding of a relevant
/// character, one half of it, or a surrogate unrelated to the pattern.
fn texts(p: &Program, rng: &mut Rng, n_random: usize) -> Vec<Vec<u16>> {
    let alpha = gen::relevant_alphabet(&p.mentioned, 4, p.flags.i);
    let mut tokens: Vec<Vec<u16>> = Vec::new();
    let mut push = |t: Vec<u16>, tokens: &mut Vec<Vec<u16>>| {
        if !tokens.contains(&t) {
            tokens.push(t);
        }
    };
    for &c in &alpha {
        if let Some(ch) = char::from_u32(c) {
            let mut b = [0u16; 2];
            let e = ch.encode_utf16(&mut b).to_vec();
            if e.len() == 2 {
                push(vec![e[0]], &mut tokens);
                push(vec![e[1]], &mut tokens);
            }
            push(e, &mut tokens);
        }
    }
    for s in [0xD83Du16, 0xDE00, 0xD800, 0xDFFF] {
        push(vec![s], &mut tokens);
    }
    push(vec![0x61], &mut tokens);
    tokens.truncate(10);
    let mut v: Vec<Vec<u16>> = vec![vec![]];
    for a in &tokens {
        v.push(a.clone());
    }
    for a in &tokens {
        for b in &tokens {
            let mut t = a.clone();
            t.extend_from_slice(b);
            v.push(t);
        }
    }
    for k in 0..n_random {
        let len = 3 + (k % 5);
        let mut t = Vec::new();
        for _ in 0..len {
            let tk: &Vec<u16> = rng.pick(&tokens[..]);
            t.extend_from_slice(tk);
        }
        v.push(t);
    }
    v.sort();
    v.dedup();
    v.sort_by_key(|t| t.len());
    v
}

fn u16_json(text: &[u16]) -> J {
    J::Arr(text.iter().map(|&x| J::from(x as u32)).collect())
}

fn has_lone(text: &[u16]) -> bool {
    let mut i = 0;
    while i < text.len() {
        if is_hi(text[i]) && i + 1 < text.len() && is_lo(text[i + 1]) {
            i += 2;
            continue;
        }
        if is_hi(text[i]) || is_lo(text[i]) {
            return true;
        }
        i += 1;
    }
    false
}

fn prepare(pat: &[u32], flags: Flags) -> Result<Prepared, &'static str> {
    match engine::compile(pat, flags, false) {
        Guarded::Ok(Ok(re)) => Ok(Prepared { re, pat: esref::parse(pat, flags).ok() }),
        _ => Err("compile_rejected"),
    }
}

fn run_case(mode: Mode, p: &Prepared, text: &[u16], start: usize, ucs2: bool, rep: &mut Report) -> V {
    match mode {
        Mode::Iter => case_iter(p, text, start, ucs2, rep),
        Mode::Steps => case_steps(p, text, start, ucs2, rep),
        Mode::Robust => case_robust(p, text, start, ucs2, rep, "C14"),
        Mode::RobustMem => case_robust(p, text, start, ucs2, rep, "C06"),
    }
}

pub fn run(cfg: &Cfg, rep: &mut Report, mode: Mode) {
    let check = match mode {
        Mode::Iter => "c09u16",
        Mode::Steps => "c05u16",
        Mode::Robust => "c14u16",
        Mode::RobustMem => "c06u16",
    };
    if let Some(r) = &cfg.replay {
        let case = r.get("case").unwrap_or(r);
        let pat: Vec<u32> = case.get("pattern_cps").and_then(|a| a.as_arr()).map(|a| a.iter().filter_map(|x| x.as_i64()).map(|x| x as u32).collect()).unwrap_or_default();
        let flags = Flags::from_str(case.get("flags").and_then(|f| f.as_str()).unwrap_or(""));
        let text: Vec<u16> = case.get("u16").and_then(|a| a.as_arr()).map(|a| a.iter().filter_map(|x| x.as_i64()).map(|x| x as u16).collect()).unwrap_or_default();
        let start = case.get("start").and_then(|s| s.as_i64()).unwrap_or(0) as usize;
        let ucs2 = case.get("api").and_then(|s| s.as_str()) == Some("ucs2");
        rep.inc("evaluations");
        let prog = Program { idx: 0, pattern: pat.clone(), flags, mentioned: vec![], source: "replay" };
        let cj = prog.describe().set("u16", u16_json(&text)).set("start", start).set("api", if ucs2 { "ucs2" } else { "utf16" }).set("check", check);
        match prepare(&pat, flags) {
            Ok(p) => match run_case(mode, &p, &text, start, ucs2, rep) {
                V::Violated { property, what, observed, expected } => rep.violation(violation(property, &what, cj, observed, expected)),
                _ => println!("REPLAY-HELD {}", cj.to_string()),
            },
            Err(_) => println!("REPLAY-HELD {}", cj.to_string()),
        }
        return;
    }
    let fl = |s: &str| Flags::from_str(s);
    let mut fixed = super::diff::fixed_corpus();
    for (p, f) in [
        ("(?:)", ""), ("a", ""), ("x.*?a", "s"), ("a*", ""), ("\\b", ""), (".", ""), (".", "u"), ("(?<=.)", "u"), ("[^a]+", ""), ("[^a]*?", ""), ("\\uD800", ""), ("\\uDC00", ""), ("[\\uD800-\\uDBFF]", ""), ("[\\uD800-\\uDBFF][\\uDC00-\\uDFFF]", ""),
        ("(.)\\1", "iu"), ("(?<=(.)\\1)", "i"), ("\\b", "iu"), ("^.*$", "ms"), ("(?<!.)", "s"), ("a|", ""), (".*?", "s"), (".*?a", "s"), (".+?$", "s"), ("\\W", "iu"), ("(?:.{2})*", "su"), ("\u{10000}", ""), ("\u{10000}", "u"), ("[\u{10000}]", "u"),
        ("(?<=\u{10000})", "u"), ("(?<=.*?)a", "s"), ("(?<=\\W*?)", ""), ("[^]*?\\uDE00", ""), ("\\S*?$", ""), ("(?<=[^a]{1,2}?)", "u"), ("(?:\\uD83D)*", ""), ("(?=\\uDE00)", ""), ("$", "m"), ("^", "m"),
        // one-character loops that have to give characters back / take more, in both directions
        (".*x", "u"), (".*x", "s"), ("[^a]*b", ""), ("\\W+\\d", ""), (".*?x", "su"), ("(?<=.*x)c", "s"), ("(?<=x.*)c", "su"), ("(?<=[^a]+?b.)", ""), ("(?<!.*x)c", "s"), ("\\S{2,}\\s", "u"), (".{2,3}b", "su"), ("(?<=.{2,3})c", "su"),
    ] {
        fixed.push((p.to_string(), fl(f)));
    }
    if mode == Mode::Iter {
        fixed.extend(super::diff::first_position_shapes());
    }
    let bounded = cfg.opt("max_cases").is_some();
    let spec = StreamSpec { n_struct: if bounded { cfg.opt_usize("max_cases", 100) } else { cfg.scaled(if cfg.quick() { 4_000 } else { 150_000 }) }, enum_nodes: if bounded { 1 } else if cfg.quick() { 2 } else { 3 }, enum_flags: vec![fl(""), fl("su")], tweak, fixed, templates: false };
    let n_random = if cfg.quick() { 8 } else { 24 };
    // under slow tools the supervisor bounds the cases per process and gives a wall-clock budget
    // (which only limits how much is explored)
    let max_cases = cfg.opt_usize("max_cases", usize::MAX);
    let budget_s = cfg.opt_usize("budget_s", usize::MAX) as u64;
    let t0 = std::time::Instant::now();
    let mut cases = 0usize;
    SLOW_TOOL.store(bounded, std::sync::atomic::Ordering::Relaxed);
    for_each_program(cfg, rep, &spec, |p, rep, rng| {
        if cases >= max_cases || t0.elapsed().as_secs() > budget_s {
            return;
        }
        if bounded && (p.flags.i || p.pattern_lossy().contains("\\p{") || p.pattern_lossy().contains("\\P{")) {
            // closing classes under i and building property sets take minutes under Miri and
            // touch none of the position-stepping code this stage is about
            rep.inc("skipped.slow_to_compile_under_the_tool");
            return;
        }
        let prep = match prepare(&p.pattern, p.flags) {
            Ok(x) => x,
            Err(why) => {
                rep.inc(&format!("skipped.{}", why));
                return;
            }
        };
        #[cfg(feature = "hooks")]
        engine::hooks::reset();
        let mut ts = texts(p, rng, n_random);
        let program_cap = if bounded { cases + 12 } else { usize::MAX };
        if bounded {
            rng.shuffle(&mut ts);
        }
        let mut any = false;
        'prog: for text in &ts {
            let lone = has_lone(text);
            for start in 0..=text.len() + 1 {
                for ucs2 in [false, true] {
                    let h = fnv64(format!("{}|{:?}|{}|{}", p.hash(), text, start, ucs2).as_bytes());
                    if cases >= max_cases || cases >= program_cap {
                        break 'prog;
                    }
                    // the step-bound monitor has no reference cost for a start inside a pair
                    // (termination from such starts is the robustness stages' business)
                    if mode == Mode::Steps && !ucs2 && start > 0 && start < text.len() && is_hi(text[start - 1]) && is_lo(text[start]) {
                        continue;
                    }
                    cases += 1;
                    match run_case(mode, &prep, text, start, ucs2, rep) {
                        V::Held(nt) => {
                            rep.eval(h, nt);
                            any |= nt;
                            if lone {
                                rep.inc("cases_with_lone_surrogate");
                                if nt {
                                    rep.inc("nontrivial_cases_with_lone_surrogate");
                                }
                            }
                        }
                        V::Inconclusive(why) => {
                            rep.inc("evaluations");
                            rep.inconclusive(why);
                        }
                        V::Violated { property, what, observed, expected } => {
                            rep.inc("evaluations");
                            let cj = p.describe().set("u16", u16_json(text)).set("start", start).set("api", if ucs2 { "ucs2" } else { "utf16" }).set("check", check);
                            rep.violation(violation(property, &what, cj, observed, expected));
                            break 'prog;
                        }
                    }
                }
            }
        }
        #[cfg(feature = "hooks")]
        {
            let k = engine::hooks::take();
            crate::report::absorb_hooks(rep, &k);
        }
        if any && rep.samples.len() < rep.max_samples && (rep.samples.is_empty() || rep.get("programs") % 211 == 1) {
            rep.sample(p.describe().set("texts", ts.len()).set("example_u16", u16_json(ts.last().map(|t| t.as_slice()).unwrap_or(&[]))));
        }
    });
}
