//! C16: Match accessors are consistent; named access finds the participating group.

use super::common::*;
use super::framework::*;
use crate::engine::{self, Guarded};
use crate::esref::{self, Flags};
use crate::gen::GenCfg;
use crate::report::{Cfg, Report};
use crate::rng::Rng;

const FUEL: u64 = 3_000_000;

pub struct C16;

pub struct C16Prep {
    re: regress::Regex,
    pat: esref::Pattern,
    /// distinct names in source order
    names: Vec<String>,
    has_dups: bool,
    has_lookbehind_groups: bool,
}

fn sp(r: &Option<std::ops::Range<usize>>) -> String {
    match r {
        Some(r) => format!("{}..{}", r.start, r.end),
        None => "None".into(),
    }
}

impl PCheck for C16 {
    type Prepared = C16Prep;
    fn name(&self) -> &'static str {
        "c16"
    }
    fn prepare(&self, pat: &[u32], flags: Flags, rep: Option<&mut Report>) -> Prep<C16Prep> {
        let re = match engine::compile(pat, flags, false) {
            Guarded::Ok(Ok(re)) => re,
            Guarded::Ok(Err(_)) => return Prep::Skip("compile_rejected"),
            other => return Prep::Violated { property: "C07", what: "compile did not return Ok or Err".into(), observed: other.describe_short(), expected: "Ok or Err".into() },
        };
        let Ok(p) = esref::parse(pat, flags) else { return Prep::Skip("reference_rejects") };
        let mut names: Vec<String> = Vec::new();
        let mut dups = false;
        for n in p.group_names.iter().skip(1).flatten() {
            if names.contains(n) {
                dups = true;
            } else {
                names.push(n.clone());
            }
        }
        let lb = p.features.lookbehinds > 0 && p.features.groups > 0;
        if let Some(rep) = rep {
            if !names.is_empty() {
                rep.inc("programs_with_named_groups");
            }
            if dups {
                rep.inc("programs_with_duplicate_names");
            }
            if lb {
                rep.inc("programs_with_groups_and_lookbehind");
            }
        }
        Prep::Ready(C16Prep { re, pat: p, names, has_dups: dups, has_lookbehind_groups: lb })
    }
    fn case(&self, p: &C16Prep, hay: &str, start: usize, mut rep: Option<&mut Report>) -> Verdict {
        let n = p.pat.ngroups;
        // Which groups "participated" is a matter of the match semantics: the slots of the first
        // match are those of the reference model's first successful path (None for a group that did
        // not participate or was reset by a later iteration -- never an empty leftover).
        if n > 0 && p.pat.features.quantifiers > 0 && start == 0 {
            let idx = crate::engine::CpIndex::new(hay);
            let cps = engine::to_cps(hay);
            let (ro, _st) = esref::exec(&p.pat, &cps, 0, esref::RefLimits { max_steps: 20_000, max_depth: 5_000 });
            if let esref::RefOutcome::Match(rm) = ro {
                let want = engine::ref_to_ematch(&rm, &idx);
                if let Guarded::Ok(Some(got)) = engine::find_first(&p.re, hay, 0, engine::Api::Utf8, FUEL) {
                    if let Some(r) = rep.as_deref_mut() {
                        r.inc("first_match_slots_checked_against_reference");
                    }
                    if got.range == want.range && got.caps != want.caps {
                        return Verdict::Violated { property: "C16", what: "capture slots of the first match are not those of the groups' last participation".into(), observed: got.show(), expected: want.show() };
                    }
                }
            }
        }
        let res = engine::guarded(FUEL, || {
            let mut problems: Vec<(String, String, String)> = Vec::new();
            let mut count = 0usize;
            let mut second_dup = 0usize;
            for m in p.re.find_from(hay, start).take(200) {
                count += 1;
                let mut bad = |what: &str, obs: String, exp: String| {
                    if problems.len() < 3 {
                        problems.push((what.to_string(), obs, exp));
                    }
                };
                if m.captures.len() != n {
                    bad("captures.len() differs from the number of capturing groups", m.captures.len().to_string(), n.to_string());
                    continue;
                }
                if m.group(0) != Some(m.range()) || m.start() != m.range.start || m.end() != m.range.end {
                    bad("group(0) / start() / end() disagree with range", sp(&m.group(0)), sp(&Some(m.range())));
                }
                if m.as_str(hay) != &hay[m.range()] {
                    bad("as_str differs from slicing with range", m.as_str(hay).to_string(), hay[m.range()].to_string());
                }
                for i in 1..=n {
                    if m.group(i) != m.captures[i - 1] {
                        bad(&format!("group({}) differs from captures[{}]", i, i - 1), sp(&m.group(i)), sp(&m.captures[i - 1]));
                    }
                }
                for i in [n + 1, n + 2, usize::MAX] {
                    if m.group(i).is_some() {
                        bad(&format!("group({}) beyond the last group is not None", i), sp(&m.group(i)), "None".into());
                    }
                }
                // groups()
                let mut it = m.groups();
                let mut items = Vec::new();
                loop {
                    let (lo, hi) = it.size_hint();
                    let remaining = n + 1 - items.len();
                    if lo != remaining || hi != Some(remaining) || it.len() != remaining {
                        bad("groups() size_hint / len is not exact", format!("({}, {:?}) len {}", lo, hi, it.len()), remaining.to_string());
                    }
                    match it.next() {
                        Some(x) => items.push(x),
                        None => break,
                    }
                    if items.len() > n + 5 {
                        break;
                    }
                }
                let mut expect = vec![Some(m.range())];
                expect.extend(m.captures.iter().cloned());
                if items != expect {
                    bad("groups() items differ from [range] + captures", format!("{:?}", items), format!("{:?}", expect));
                }
                if it.next().is_some() {
                    bad("groups() is not fused", "Some".into(), "None".into());
                }
                // named access: ground truth from the reference parse
                let mut expect_named: Vec<(String, Option<std::ops::Range<usize>>)> = Vec::new();
                for name in &p.names {
                    let mut val = None;
                    let mut which = 0;
                    for (gi, gn) in p.pat.group_names.iter().enumerate().skip(1) {
                        if gn.as_deref() == Some(name.as_str()) {
                            which += 1;
                            if let Some(r) = &m.captures[gi - 1] {
                                val = Some(r.clone());
                                if which >= 2 {
                                    second_dup += 1;
                                }
                                break;
                            }
                        }
                    }
                    expect_named.push((name.clone(), val));
                }
                for (name, val) in &expect_named {
                    if &m.named_group(name) != val {
                        bad(&format!("named_group({:?}) is not the participating group's capture", name), sp(&m.named_group(name)), sp(val));
                    }
                }
                if m.named_group("").is_some() {
                    bad("named_group(\"\") is not None", sp(&m.named_group("")), "None".into());
                }
                if m.named_group("no_such_name_").is_some() {
                    bad("named_group(absent) is not None", "Some".into(), "None".into());
                }
                let mut ng = m.named_groups();
                let mut got_named: Vec<(String, Option<std::ops::Range<usize>>)> = Vec::new();
                loop {
                    let (lo, hi) = ng.size_hint();
                    let remaining = expect_named.len() - got_named.len().min(expect_named.len());
                    if lo != remaining || hi != Some(remaining) || ng.len() != remaining {
                        bad("named_groups() size_hint / len is not exact", format!("({}, {:?}) len {}", lo, hi, ng.len()), remaining.to_string());
                    }
                    match ng.next() {
                        Some((k, v)) => got_named.push((k.to_string(), v)),
                        None => break,
                    }
                    if got_named.len() > n + 5 {
                        break;
                    }
                }
                if got_named != expect_named {
                    bad("named_groups() differs from (names in source order, participating capture)", format!("{:?}", got_named), format!("{:?}", expect_named));
                }
            }
            (count, problems, second_dup)
        });
        match res {
            Guarded::Ok((count, problems, second_dup)) => {
                if let Some((what, obs, exp)) = problems.into_iter().next() {
                    return Verdict::Violated { property: "C16", what, observed: obs, expected: exp };
                }
                if let Some(r) = rep.as_deref_mut() {
                    r.add("matches_inspected", count as u64);
                    if !p.names.is_empty() {
                        r.add("matches_with_named_groups", count as u64);
                    }
                    if second_dup > 0 {
                        r.add("matches_where_a_later_duplicate_participated", second_dup as u64);
                    }
                    if p.has_lookbehind_groups && count > 0 {
                        r.add("matches_of_programs_with_groups_in_lookbehind", count as u64);
                    }
                    let _ = p.has_dups;
                }
                Verdict::Held { nontrivial: count > 0 && p.pat.ngroups > 0 }
            }
            Guarded::Fuel => Verdict::Inconclusive("fuel"),
            Guarded::Panic(m) => Verdict::Violated { property: "C16", what: "an accessor panicked".into(), observed: m, expected: "no panic".into() },
        }
    }
}

fn tweak(g: &mut GenCfg, rng: &mut Rng) {
    g.named = true;
    g.max_depth = rng.range(2, 4);
    g.long_literals = false;
}

pub fn run(cfg: &Cfg, rep: &mut Report) {
    let fl = |s: &str| Flags::from_str(s);
    let mut fixed = Vec::new();
    for (p, f) in [
        ("(?<a>x)|(?<a>y)", ""),
        ("(?<a>x)|(?<a>y)|(?<a>z)", ""),
        ("(?:(?<a>x)|(?<a>y))(?<b>b)?", ""),
        ("(?<=(?<a>x)(?<b>y))z", ""),
        ("(?<=(?<b>x)(y)(?<a>z))w", ""),
        ("(?<!(?<a>x))(?<b>y)", ""),
        ("(a)(?<n>b)(c)", ""),
        ("(?<x>a)|b", ""),
        ("((?<i>a)|(?<o>b))+", ""),
        ("(?<a>a)(?:(?<b>b)|(?<c>c))", "u"),
        ("(?<$x>a)(?<_y>b)", ""),
        ("(?<a>[\\q{xy|x}])|(?<a>y)", "v"),
        ("(?<π>a)", "u"),
        ("(a)|(b)|(c)", ""),
        ("()()()", ""),
    ] {
        fixed.push((p.to_string(), fl(f)));
    }
    let spec = StreamSpec { n_struct: cfg.scaled(if cfg.quick() { 25_000 } else { 300_000 }), enum_nodes: 0, enum_flags: vec![], tweak, fixed, templates: true };
    let opts = DriveOpts { budget: if cfg.quick() { 80 } else { 250 }, n_long: 2, n_plant: 2, ascii_only: false, sample_every: 199 };
    drive(&C16, cfg, rep, &spec, &opts);
}
