//! A small framework shared by the per-(program, haystack, start) checks: prepare once per
//! program, evaluate cases, shrink and report violations, replay recorded cases.

use super::common::*;
use crate::engine;
use crate::esref::Flags;
use crate::gen;
use crate::json::J;
use crate::report::{Cfg, Report};
use crate::rng::{fnv64, Rng};

pub enum Verdict {
    Held { nontrivial: bool },
    Violated { property: &'static str, what: String, observed: String, expected: String },
    Inconclusive(&'static str),
}

pub enum Prep<T> {
    Ready(T),
    /// The pattern does not apply to this check (e.g. it does not compile).
    Skip(&'static str),
    Violated { property: &'static str, what: String, observed: String, expected: String },
}

pub trait PCheck {
    type Prepared;
    /// Name used in replay files.
    fn name(&self) -> &'static str;
    fn prepare(&self, pat: &[u32], flags: Flags, rep: Option<&mut Report>) -> Prep<Self::Prepared>;
    fn case(&self, prep: &Self::Prepared, hay: &str, start: usize, rep: Option<&mut Report>) -> Verdict;
    /// Start offsets to try for a haystack.
    fn starts(&self, hay: &str) -> Vec<usize> {
        gen::boundaries(hay)
    }
    /// Override the haystacks for a program (default: relevant-alphabet enumeration).
    fn haystacks(&self, _p: &Program, _rng: &mut Rng) -> Option<Vec<String>> {
        None
    }
    /// Called once per program after all its cases ran.
    fn after_program(&self, _prep: &Self::Prepared, _p: &Program, _rep: &mut Report) {}
}

/// Does (pat, hay, start) still violate?
fn still_fails<C: PCheck>(c: &C, pat: &[u32], flags: Flags, hay: &str, start: usize) -> Option<(String, String, String)> {
    match c.prepare(pat, flags, None) {
        Prep::Ready(p) => match c.case(&p, hay, start, None) {
            Verdict::Violated { what, observed, expected, .. } => Some((what, observed, expected)),
            _ => None,
        },
        Prep::Violated { what, observed, expected, .. } => Some((what, observed, expected)),
        Prep::Skip(_) => None,
    }
}

/// Greedy delta-debugging on the pattern (code points) and the haystack (chars).
pub fn shrink<C: PCheck>(c: &C, pat: &[u32], flags: Flags, hay: &str, start: usize, max_tries: usize) -> (Vec<u32>, String, usize, usize) {
    let mut pat: Vec<u32> = pat.to_vec();
    let mut hay: Vec<char> = hay.chars().collect();
    // start as a char index
    let mut sidx = hay.iter().collect::<String>().char_indices().position(|(i, _)| i == start).unwrap_or(hay.len());
    let mut tries = 0usize;
    let to_str = |h: &[char]| h.iter().collect::<String>();
    let byte_of = |h: &[char], k: usize| h[..k.min(h.len())].iter().map(|c| c.len_utf8()).sum::<usize>();
    let mut progress = true;
    while progress && tries < max_tries {
        progress = false;
        // pattern chunks
        let mut size = (pat.len() / 2).max(1);
        while size >= 1 && tries < max_tries {
            let mut i = 0;
            while i + size <= pat.len() && tries < max_tries {
                let mut cand = pat.clone();
                cand.drain(i..i + size);
                tries += 1;
                let hs = to_str(&hay);
                if still_fails(c, &cand, flags, &hs, byte_of(&hay, sidx)).is_some() {
                    pat = cand;
                    progress = true;
                } else {
                    i += 1;
                }
            }
            if size == 1 {
                break;
            }
            size /= 2;
        }
        // haystack chars
        let mut i = 0;
        while i < hay.len() && tries < max_tries {
            let mut cand = hay.clone();
            cand.remove(i);
            let ns = if i < sidx { sidx - 1 } else { sidx };
            tries += 1;
            if still_fails(c, &pat, flags, &to_str(&cand), byte_of(&cand, ns)).is_some() {
                hay = cand;
                sidx = ns;
                progress = true;
            } else {
                i += 1;
            }
        }
        // start towards 0
        if sidx > 0 && tries < max_tries {
            tries += 1;
            if still_fails(c, &pat, flags, &to_str(&hay), 0).is_some() {
                sidx = 0;
                progress = true;
            }
        }
    }
    let hs = to_str(&hay);
    let st = byte_of(&hay, sidx);
    (pat, hs, st, tries)
}

pub fn emit_violation<C: PCheck>(c: &C, rep: &mut Report, p: &Program, hay: &str, start: usize, property: &str, what: &str, observed: &str, expected: &str) {
    let mut v = violation(property, what, case_json(p, hay, start).set("check", c.name()), observed.to_string(), expected.to_string());
    if rep.violations < 6 {
        let (sp, sh, ss, tries) = shrink(c, &p.pattern, p.flags, hay, start, 1500);
        if let Some((w, o, e)) = still_fails(c, &sp, p.flags, &sh, ss) {
            let sprog = Program { idx: p.idx, pattern: sp, flags: p.flags, mentioned: vec![], source: "shrunk" };
            v.put("shrunk", case_json(&sprog, &sh, ss).set("check", c.name()).set("what", w).set("observed", o).set("expected", e).set("tries", tries));
        }
    }
    rep.violation(v);
}

pub struct DriveOpts {
    pub budget: usize,
    pub n_long: usize,
    pub n_plant: usize,
    pub ascii_only: bool,
    pub sample_every: u64,
}

/// Haystacks built from slices of the pattern text (so that long literal runs can match).
pub fn plant_haystacks(p: &Program, rng: &mut Rng, n: usize) -> Vec<String> {
    let chars: Vec<char> = p.pattern.iter().filter_map(|&c| char::from_u32(c)).collect();
    let mut v = Vec::new();
    if chars.len() < 2 {
        return v;
    }
    for _ in 0..n {
        let a = rng.below(chars.len());
        let b = (a + 1 + rng.below(40)).min(chars.len());
        let mut s = String::new();
        for _ in 0..rng.below(5) {
            s.push(*rng.pick(&['x', 'a', 'é', '\n']));
        }
        s.extend(chars[a..b].iter().filter(|c| !matches!(**c, '\\' | '(' | ')' | '[' | ']' | '?' | '*' | '+' | '{' | '}' | '|' | '^' | '$')));
        for _ in 0..rng.below(3) {
            s.push(*rng.pick(&['x', 'b', 'é']));
        }
        v.push(s);
    }
    v
}

pub fn drive<C: PCheck>(c: &C, cfg: &Cfg, rep: &mut Report, spec: &StreamSpec, opts: &DriveOpts) {
    if let Some(r) = &cfg.replay {
        replay(c, r, rep);
        return;
    }
    for_each_program(cfg, rep, spec, |p, rep, rng| {
        let prep = match c.prepare(&p.pattern, p.flags, Some(rep)) {
            Prep::Ready(x) => x,
            Prep::Skip(why) => {
                rep.inc(&format!("skipped.{}", why));
                return;
            }
            Prep::Violated { property, what, observed, expected } => {
                emit_violation(c, rep, p, "", 0, property, &what, &observed, &expected);
                return;
            }
        };
        let hays = match c.haystacks(p, rng) {
            Some(h) => h,
            None => {
                let mut hays = haystacks(p, rng, opts.budget, opts.n_long, opts.ascii_only);
                for h in plant_haystacks(p, rng, opts.n_plant) {
                    if !opts.ascii_only || h.is_ascii() {
                        hays.push(h);
                    }
                }
                hays
            }
        };
        #[cfg(feature = "hooks")]
        engine::hooks::reset();
        let mut any_nontrivial = false;
        'prog: for hay in &hays {
            for start in thin_starts(c.starts(hay)) {
                let h = fnv64(format!("{}|{}|{}", p.hash(), hay, start).as_bytes());
                match c.case(&prep, hay, start, Some(rep)) {
                    Verdict::Held { nontrivial } => {
                        rep.eval(h, nontrivial);
                        any_nontrivial |= nontrivial;
                    }
                    Verdict::Inconclusive(why) => {
                        rep.inc("evaluations");
                        rep.inconclusive(why);
                    }
                    Verdict::Violated { property, what, observed, expected } => {
                        rep.inc("evaluations");
                        emit_violation(c, rep, p, hay, start, property, &what, &observed, &expected);
                        break 'prog;
                    }
                }
            }
        }
        #[cfg(feature = "hooks")]
        {
            let k = engine::hooks::take();
            crate::report::absorb_hooks(rep, &k);
        }
        c.after_program(&prep, p, rep);
        if any_nontrivial && rep.samples.len() < rep.max_samples && (rep.samples.is_empty() || rep.get("programs") % opts.sample_every == 1) {
            rep.sample(p.describe().set("haystacks", hays.len()).set("example_haystack", hays.last().cloned().unwrap_or_default()));
        }
    });
}

/// Re-run one recorded case and print the observation.
pub fn replay<C: PCheck>(c: &C, r: &J, rep: &mut Report) {
    let case = r.get("case").unwrap_or(r);
    let pat: Vec<u32> = case.get("pattern_cps").and_then(|a| a.as_arr()).map(|a| a.iter().filter_map(|x| x.as_i64()).map(|x| x as u32).collect()).unwrap_or_default();
    let flags = Flags::from_str(case.get("flags").and_then(|f| f.as_str()).unwrap_or(""));
    let hay_bytes = case.get("haystack_hex").and_then(|h| h.as_str()).map(unhex).unwrap_or_default();
    let hay = String::from_utf8(hay_bytes).unwrap_or_default();
    let start = case.get("start").and_then(|s| s.as_i64()).unwrap_or(0) as usize;
    let p = Program { idx: 0, pattern: pat.clone(), flags, mentioned: vec![], source: "replay" };
    rep.inc("evaluations");
    match still_fails(c, &pat, flags, &hay, start) {
        Some((what, observed, expected)) => {
            let prop = r.get("property").and_then(|p| p.as_str()).unwrap_or("?").to_string();
            rep.violation(violation(&prop, &what, case_json(&p, &hay, start).set("check", c.name()), observed, expected));
        }
        None => {
            println!("REPLAY-HELD {}", case_json(&p, &hay, start).to_string());
        }
    }
}
