//! C14: UTF-16 and UCS-2 entry points agree with UTF-8 on well-formed text and are robust on
//! arbitrary u16 input. Only built in the `utf16` variant.

#![cfg(feature = "utf16")]

use super::common::*;
use super::framework::*;
use crate::engine::{self, Api, EMatch, Guarded};
use crate::esref::Flags;
use crate::gen::GenCfg;
use crate::json::J;
use crate::report::{Cfg, Report};
use crate::rng::{fnv64, Rng};

const FUEL: u64 = 3_000_000;

/// Offsets of each code point in UTF-8 bytes and UTF-16 units (plus the end).
struct Map {
    b: Vec<usize>,
    u: Vec<usize>,
}

impl Map {
    fn new(s: &str) -> Map {
        let mut b = Vec::new();
        let mut u = Vec::new();
        let (mut bi, mut ui) = (0, 0);
        for c in s.chars() {
            b.push(bi);
            u.push(ui);
            bi += c.len_utf8();
            ui += c.len_utf16();
        }
        b.push(bi);
        u.push(ui);
        Map { b, u }
    }
    fn u_to_b(&self, x: usize) -> Option<usize> {
        self.u.binary_search(&x).ok().map(|i| self.b[i])
    }
    fn b_to_u(&self, x: usize) -> Option<usize> {
        self.b.binary_search(&x).ok().map(|i| self.u[i])
    }
}

fn collect16(re: &regress::Regex, text: &[u16], start: usize, ucs2: bool) -> Guarded<Vec<EMatch>> {
    engine::guarded(FUEL, || {
        let mut out = Vec::new();
        if ucs2 {
            for m in re.find_from_ucs2(text, start).take(engine::MAX_MATCHES) {
                out.push(EMatch::from(&m));
            }
        } else {
            for m in re.find_from_utf16(text, start).take(engine::MAX_MATCHES) {
                out.push(EMatch::from(&m));
            }
        }
        out
    })
}

pub struct C14;

impl PCheck for C14 {
    type Prepared = regress::Regex;
    fn name(&self) -> &'static str {
        "c14"
    }
    fn prepare(&self, pat: &[u32], flags: Flags, _rep: Option<&mut Report>) -> Prep<regress::Regex> {
        match engine::compile(pat, flags, false) {
            Guarded::Ok(Ok(re)) => Prep::Ready(re),
            Guarded::Ok(Err(_)) => Prep::Skip("compile_rejected"),
            other => Prep::Violated { property: "C07", what: "compile did not return Ok or Err".into(), observed: other.describe_short(), expected: "Ok or Err".into() },
        }
    }
    fn case(&self, re: &regress::Regex, hay: &str, start: usize, mut rep: Option<&mut Report>) -> Verdict {
        let map = Map::new(hay);
        let Some(start16) = map.b_to_u(start) else { return Verdict::Inconclusive("start_not_on_boundary") };
        let a = engine::find_all(re, hay, start, Api::Utf8, FUEL);
        let Guarded::Ok(a) = a else { return Verdict::Inconclusive("utf8_fuel_or_panic") };
        let units: Vec<u16> = hay.encode_utf16().collect();
        let translate = |ms: &Vec<EMatch>| -> Result<Vec<EMatch>, String> {
            let mut out = Vec::new();
            for m in ms {
                let t = |(s, e): (usize, usize)| -> Result<(usize, usize), String> {
                    if s > e || e > units.len() {
                        return Err(format!("range {}..{} outside the slice (len {})", s, e, units.len()));
                    }
                    match (map.u_to_b(s), map.u_to_b(e)) {
                        (Some(x), Some(y)) => Ok((x, y)),
                        _ => Err(format!("range {}..{} splits a surrogate pair", s, e)),
                    }
                };
                let range = t(m.range)?;
                let mut caps = Vec::new();
                for c in &m.caps {
                    caps.push(match c {
                        Some(r) => Some(t(*r)?),
                        None => None,
                    });
                }
                out.push(EMatch { range, caps });
            }
            Ok(out)
        };
        let supplementary = hay.chars().any(|c| c as u32 > 0xFFFF);
        for (name, ucs2) in [("utf16", false), ("ucs2", true)] {
            if ucs2 && supplementary {
                continue;
            }
            let b = match collect16(re, &units, start16, ucs2) {
                Guarded::Ok(v) => v,
                Guarded::Fuel => return Verdict::Inconclusive("fuel"),
                Guarded::Panic(m) => return Verdict::Violated { property: "C14", what: format!("{} entry point panicked on well-formed text", name), observed: m, expected: "no panic".into() },
            };
            let bt = match translate(&b) {
                Ok(x) => x,
                Err(e) => return Verdict::Violated { property: "C14", what: format!("{} entry point reported an invalid range", name), observed: e, expected: "ranges on code point boundaries inside the slice".into() },
            };
            if let Some(r) = rep.as_deref_mut() {
                r.inc(&format!("pairs.{}", name));
                if supplementary {
                    r.inc("pairs_with_supplementary_text");
                }
            }
            if bt != a {
                return Verdict::Violated {
                    property: "C14",
                    what: format!("{} entry point disagrees with the UTF-8 entry point on the same text", name),
                    observed: format!("{} (translated to byte offsets): {}", name, engine::show_matches(&bt)),
                    expected: format!("utf8: {}", engine::show_matches(&a)),
                };
            }
        }
        Verdict::Held { nontrivial: !a.is_empty() }
    }
}

fn tweak(g: &mut GenCfg, rng: &mut Rng) {
    let mut a: Vec<u32> = "ab1\n".chars().map(|c| c as u32).collect();
    // (U+10061, U+10062, U+10031, U+1000A, U+20061: supplementary characters whose low 16 bits are the
    // base alphabet's ASCII characters -- a truncated code point would alias them)
    let extra = [0x10000u32, 0x10400, 0x10428, 0x1E900, 0x1E922, 0x1F600, 0x10FFFF, 0xE9, 0xFFFF, 0x212A, 0x17F, 0x20E3, 0xFE0F, 0x23, 0x10061, 0x10062, 0x10031, 0x1000A, 0x20061, 0x10061, 0x10031];
    for _ in 0..rng.range(1, 3) {
        a.push(*rng.pick(&extra));
    }
    rng.shuffle(&mut a);
    a.truncate(rng.range(2, 4));
    g.alphabet = a;
    g.props = rng.chance(1, 4);
}

pub fn run(cfg: &Cfg, rep: &mut Report) {
    let fl = |s: &str| Flags::from_str(s);
    let mut fixed = super::diff::fixed_corpus();
    for (p, f) in [
        ("(?<=\u{10000})a", ""), ("(?<=(\u{10400})\\1)x", "iu"), ("(\u{10400})\\1", "iu"), ("(\u{1E900})\\1", "iv"), ("[\u{10000}-\u{10FFFF}]*?a", "u"), (".\u{10000}.", "s"), ("(?<![\u{10000}])\u{10001}", "u"), ("\\p{RGI_Emoji}", "v"), ("(?<=\\p{Emoji_Keycap_Sequence})x", "v"),
        ("[\\q{\u{10000}a|a}]+", "v"), ("^.$", ""), ("^.$", "u"), ("\\uD83D\\uDE00", ""), ("\\uD83D", ""), ("[^a]", ""), ("\\W\\b", "iu"),
    ] {
        fixed.push((p.to_string(), fl(f)));
    }
    let spec = StreamSpec { n_struct: cfg.scaled(if cfg.quick() { 10_000 } else { 300_000 }), enum_nodes: if cfg.quick() { 2 } else { 3 }, enum_flags: vec![fl(""), fl("iu")], tweak, fixed, templates: true };
    let opts = DriveOpts { budget: if cfg.quick() { 120 } else { 300 }, n_long: 3, n_plant: 2, ascii_only: false, sample_every: 199 };
    drive(&C14, cfg, rep, &spec, &opts);
    if cfg.replay.is_some() {
        return;
    }
    // ---- surrogate code points are only reachable through the UCS-2 entry point: gc=Cs and its
    // complement must be exact there (C11 cannot see them through UTF-8 haystacks)
    if cfg.shard == 0 {
        let all: Vec<u16> = (0xD7F0u16..=0xE00F).collect();
        for (pat, flags, want_sur) in [("\\p{Cs}", "u", true), ("\\p{gc=Surrogate}", "v", true), ("\\P{Cs}", "u", false), ("[^\\p{Cs}]", "u", false), ("\\p{Any}", "u", true), ("\\p{Assigned}", "u", true)] {
            let pat = pat.replace("\\\\", "\\");
            if let Guarded::Ok(Ok(re)) = engine::compile(&engine::to_cps(&pat), fl(flags), false) {
                if let Guarded::Ok(ms) = collect16(&re, &all, 0, true) {
                    let matched: std::collections::HashSet<u16> = ms.iter().filter(|m| m.range.1 == m.range.0 + 1).map(|m| all[m.range.0]).collect();
                    rep.inc("ucs2_surrogate_property_probes");
                    rep.eval(fnv64(pat.as_bytes()), true);
                    let mut bad = None;
                    for &u in &all {
                        let is_sur = (0xD800..=0xDFFF).contains(&u);
                        let expect = match (pat.as_str(), is_sur) {
                            ("\\p{Any}", _) => true,
                            ("\\p{Assigned}", s) => s || (0xD7F0..=0xD7FB).contains(&u) || u >= 0xE000,
                            (_, s) => s == want_sur,
                        };
                        // U+D7FC..D7FF are unassigned; U+D7F0..D7FB (Hangul Jamo Extended-B) and the private use area are assigned
                        if matched.contains(&u) != expect {
                            bad = Some(u);
                            break;
                        }
                    }
                    if let Some(u) = bad {
                        rep.violation(violation("C14", "a property escape evaluated on UCS-2 input disagrees with Unicode for a code unit around the surrogate range", J::obj().set("pattern", pat.as_str()).set("flags", flags).set("unit", u as u32).set("check", "c14"), format!("matched = {}", matched.contains(&u)), "as gc=Cs is exactly U+D800..U+DFFF".into()));
                    }
                }
            }
        }
    }
    // ---- arbitrary u16 input: lone / reversed / trailing surrogates, starts everywhere
    let pats: Vec<(&str, &str)> = vec![
        (".", ""), (".", "u"), ("(?<=.)", "u"), ("[^a]+", ""), ("\\uD800", ""), ("\\uDC00", ""), ("[\\uD800-\\uDBFF]", ""), ("[\\uD800-\\uDBFF][\\uDC00-\\uDFFF]", ""), ("(.)\\1", "iu"), ("(?<=(.)\\1)", "i"), ("\\b", "iu"), ("^.*$", "ms"), ("(?<!.)", "s"), ("a|", ""),
        ("\\p{Cs}", "u"), ("\\P{Cs}+", "u"), ("[\\q{ab}]", "v"), (".*?", "s"), ("\\W", "iu"), ("(?:.{2})*", "su"), ("\u{10000}", ""), ("\u{10000}", "u"), ("[\u{10000}]", "u"), ("(?<=\u{10000})", "u"),
    ];
    let mut rng = Rng::new(cfg.seed ^ 0x14);
    let n = cfg.scaled(if cfg.quick() { 20_000 } else { 600_000 });
    let pool: [u16; 12] = [0x61, 0xD800, 0xDBFF, 0xDC00, 0xDFFF, 0xD83D, 0xDE00, 0x0A, 0xFFFF, 0x20E3, 0x212A, 0x62];
    let res: Vec<Option<regress::Regex>> = pats.iter().map(|(p, f)| engine::compile(&engine::to_cps(p), fl(f), false).ok().and_then(|r| r.ok())).collect();
    for k in 0..n {
        let len = rng.below(9);
        let text: Vec<u16> = (0..len).map(|_| *rng.pick(&pool)).collect();
        let pi = rng.below(pats.len());
        let h = fnv64(format!("{:?}|{}", text, pi).as_bytes());
        if !cfg.mine(h) {
            continue;
        }
        let Some(re) = &res[pi] else { continue };
        if k % 512 == 0 {
            rep.begin(1_000_000 + k as u64, &J::obj().set("pattern", pats[pi].0).set("flags", pats[pi].1).set("u16", J::Arr(text.iter().map(|&x| J::from(x as u32)).collect())));
        }
        let lone = {
            let mut lone = false;
            let mut i = 0;
            while i < text.len() {
                let x = text[i];
                if (0xD800..0xDC00).contains(&x) && i + 1 < text.len() && (0xDC00..0xE000).contains(&text[i + 1]) {
                    i += 2;
                    continue;
                }
                if (0xD800..0xE000).contains(&x) {
                    lone = true;
                }
                i += 1;
            }
            lone
        };
        for start in (0..=text.len() + 1).chain([usize::MAX]) {
            for ucs2 in [false, true] {
                let case = || J::obj().set("pattern", pats[pi].0).set("flags", pats[pi].1).set("u16", J::Arr(text.iter().map(|&x| J::from(x as u32)).collect())).set("start", start as u64).set("api", if ucs2 { "ucs2" } else { "utf16" }).set("check", "c14");
                rep.eval(fnv64(format!("{:?}|{}|{}|{}", text, pi, start, ucs2).as_bytes()), lone);
                if lone {
                    rep.inc("arbitrary_u16_cases_with_lone_surrogate");
                }
                match collect16(re, &text, start, ucs2) {
                    Guarded::Ok(ms) => {
                        let mut prev_end = 0usize;
                        for (j, m) in ms.iter().enumerate() {
                            let ok = m.range.0 <= m.range.1 && m.range.1 <= text.len() && m.caps.iter().flatten().all(|c| c.0 <= c.1 && c.1 <= text.len()) && (j == 0 || m.range.0 >= prev_end);
                            prev_end = m.range.1;
                            if !ok {
                                rep.violation(violation("C14", "a range reported on arbitrary u16 input is outside the slice or out of order", case(), engine::show_matches(&ms), "0 <= start <= end <= len, increasing".into()));
                                break;
                            }
                        }
                        if start > text.len() && !ms.is_empty() {
                            rep.violation(violation("C14", "a start beyond the end yielded matches", case(), engine::show_matches(&ms), "nothing".into()));
                        }
                    }
                    Guarded::Fuel => rep.violation(violation("C14", "search on arbitrary u16 input did not terminate within the step budget", case(), "fuel exhausted".into(), "terminates".into())),
                    Guarded::Panic(m) => rep.violation(violation("C14", "search on arbitrary u16 input panicked", case(), m, "no panic".into())),
                }
            }
        }
        if rep.samples.len() < rep.max_samples && lone && k % 977 == 0 {
            rep.sample(J::obj().set("pattern", pats[pi].0).set("flags", pats[pi].1).set("u16", J::Arr(text.iter().map(|&x| J::from(x as u32)).collect())));
        }
    }
}
