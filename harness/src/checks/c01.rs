//! C01: the first match equals what the ECMAScript reference model prescribes.

use super::common::*;
use super::framework::*;
use crate::engine::{self, Api, CpIndex, Guarded};
use crate::esref::{self, Flags, RefLimits, RefOutcome};
use crate::gen::GenCfg;
use crate::report::{Cfg, Report};
use crate::rng::Rng;

const FUEL: u64 = 3_000_000;

fn tweak(g: &mut GenCfg, rng: &mut Rng) {
    g.props = rng.chance(1, 3);
    g.long_literals = rng.chance(1, 5);
}

pub struct C01 {
    pub limits: RefLimits,
    pub property: &'static str,
    pub name: &'static str,
    /// Fixed haystacks (used by C12); None = relevant-alphabet enumeration.
    pub universe: Option<Vec<String>>,
    pub only_start_zero: bool,
    /// C12: a membership question is non-trivial iff the answer is "member".
    pub nontrivial_iff_matched: bool,
}

pub struct C01Prep {
    pat: esref::Pattern,
    re: regress::Regex,
}

impl PCheck for C01 {
    type Prepared = C01Prep;
    fn name(&self) -> &'static str {
        self.name
    }
    fn haystacks(&self, _p: &Program, _rng: &mut Rng) -> Option<Vec<String>> {
        self.universe.clone()
    }
    fn starts(&self, hay: &str) -> Vec<usize> {
        if self.only_start_zero {
            vec![0]
        } else {
            crate::gen::boundaries(hay)
        }
    }
    fn prepare(&self, pat: &[u32], flags: Flags, rep: Option<&mut Report>) -> Prep<C01Prep> {
        let parsed = esref::parse(pat, flags);
        let re = match engine::compile(pat, flags, false) {
            Guarded::Ok(r) => r,
            other => return Prep::Violated { property: "C07", what: "compile did not return Ok or Err".into(), observed: other.describe_short(), expected: "Ok or Err".into() },
        };
        match (parsed, re) {
            (Ok(pat), Ok(re)) => {
                if let Some(rep) = rep {
                    let f = &pat.features;
                    for (k, n) in [
                        ("feat.quantifiers", f.quantifiers),
                        ("feat.lazy", f.lazy_quantifiers),
                        ("feat.groups", f.groups),
                        ("feat.named_groups", f.named_groups),
                        ("feat.alternations", f.alternations),
                        ("feat.lookaheads", f.lookaheads),
                        ("feat.lookbehinds", f.lookbehinds),
                        ("feat.backrefs", f.backrefs),
                        ("feat.classes", f.classes),
                        ("feat.vclasses", f.vclasses),
                        ("feat.string_classes", f.string_classes),
                        ("feat.prop_escapes", f.prop_escapes),
                        ("feat.modifiers", f.modifiers),
                        ("feat.anchors", f.anchors),
                        ("feat.word_boundaries", f.word_boundaries),
                    ] {
                        if n > 0 {
                            rep.inc(k);
                        }
                    }
                }
                Prep::Ready(C01Prep { pat, re })
            }
            (Err(_), Err(_)) => Prep::Skip("both_reject"),
            (Ok(_), Err(_)) => Prep::Skip("parse_disagreement.ref_accepts_engine_rejects"),
            (Err(_), Ok(_)) => Prep::Skip("parse_disagreement.ref_rejects_engine_accepts"),
        }
    }
    fn case(&self, p: &C01Prep, hay: &str, start: usize, rep: Option<&mut Report>) -> Verdict {
        let idx = CpIndex::new(hay);
        let Some(ci) = idx.cp_of_byte(start) else { return Verdict::Inconclusive("start_not_on_boundary") };
        let cps = engine::to_cps(hay);
        let (ro, st) = esref::exec(&p.pat, &cps, ci, self.limits);
        let expected = match ro {
            RefOutcome::Match(m) => Some(engine::ref_to_ematch(&m, &idx)),
            RefOutcome::NoMatch => None,
            RefOutcome::Inconclusive(why) => return Verdict::Inconclusive(if why.contains("depth") { "ref_depth" } else { "ref_steps" }),
            RefOutcome::Unsupported(_) => return Verdict::Inconclusive("ref_unsupported"),
        };
        if let Some(rep) = rep {
            for (k, v) in &st.events {
                rep.add(&format!("esref.{}", k), *v);
            }
            rep.max("esref.max_steps", st.steps);
        }
        match engine::find_first(&p.re, hay, start, Api::Utf8, FUEL) {
            Guarded::Ok(g) => {
                if let Some(m) = &g {
                    if let Err(e) = engine::check_ranges(hay, m) {
                        return Verdict::Violated { property: "C06", what: "invalid range reported".into(), observed: e, expected: "valid ranges".into() };
                    }
                }
                if g != expected {
                    return Verdict::Violated { property: self.property, what: "first match differs from the ECMAScript reference model".into(), observed: show_opt(&g), expected: show_opt(&expected) };
                }
                // the other executor answers the same question (the semantics are the engine's, not one executor's)
                #[cfg(feature = "re-pikevm")]
                if let Guarded::Ok(pg) = engine::find_first(&p.re, hay, start, Api::Pike, FUEL) {
                    if pg != expected {
                        return Verdict::Violated { property: self.property, what: "first match of the PikeVM executor differs from the ECMAScript reference model".into(), observed: show_opt(&pg), expected: show_opt(&expected) };
                    }
                }
                if self.nontrivial_iff_matched {
                    return Verdict::Held { nontrivial: expected.is_some() };
                }
                Verdict::Held { nontrivial: p.pat.features.nontrivial() && (expected.is_some() || st.steps > 8) }
            }
            Guarded::Fuel => Verdict::Inconclusive("engine_fuel"),
            Guarded::Panic(m) => Verdict::Violated { property: "C06", what: "engine panicked".into(), observed: m, expected: show_opt(&expected) },
        }
    }
}

pub fn run(cfg: &Cfg, rep: &mut Report) {
    let fl = |s: &str| Flags::from_str(s);
    let spec = StreamSpec {
        n_struct: cfg.scaled(if cfg.quick() { 15_000 } else { 600_000 }),
        enum_nodes: if cfg.quick() { 3 } else { 4 },
        enum_flags: vec![fl(""), fl("i"), fl("u"), fl("mv"), fl("s")],
        tweak,
        fixed: { let mut f = super::diff::fixed_corpus(); f.extend(super::diff::first_position_shapes()); f }, templates: true };
    let opts = DriveOpts { budget: if cfg.quick() { 120 } else { 350 }, n_long: 2, n_plant: 2, ascii_only: false, sample_every: 299 };
    FOLDRANGE_ALL.store(true, std::sync::atomic::Ordering::Relaxed);
    let c = C01 { limits: RefLimits { max_steps: 300_000, max_depth: 20_000 }, property: "C01", name: "c01", universe: None, only_start_zero: false, nontrivial_iff_matched: false };
    drive(&c, cfg, rep, &spec, &opts);
}
