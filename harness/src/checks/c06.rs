//! C06: matching is memory-safe and panic-free; reported ranges are valid.
//! A hostile workload for the default (unchecked, pointer-position) build. The same runner is
//! executed natively with debug assertions (the crate's own invariant hooks), under
//! AddressSanitizer, under Miri and under valgrind memcheck by the supervisor; this code only
//! drives the engine, applies the range monitor and reports panics.

use super::common::*;
use crate::engine::{self, Api, Guarded};
use crate::esref::Flags;
use crate::gen::{self, GenCfg};
use crate::json::J;
use crate::report::{Cfg, Report};
use crate::rng::{fnv64, Rng};

const FUEL: u64 = 200_000;

fn tweak(g: &mut GenCfg, rng: &mut Rng) {
    g.max_depth = rng.range(1, 4);
    g.long_literals = rng.chance(1, 3);
    g.props = rng.chance(1, 5);
}

/// Haystacks that stress boundaries: empty, one character of every UTF-8 length at both ends
/// and adjacent, multi-byte text around matches.
fn hostile_haystacks(p: &Program, rng: &mut Rng, n_random: usize) -> Vec<String> {
    let edge: [u32; 9] = [0x0, 0x7F, 0x80, 0x7FF, 0x800, 0xFFFF, 0x10000, 0x10FFFF, 0x2028];
    let mut v: Vec<String> = vec![String::new()];
    let alpha = gen::relevant_alphabet(&p.mentioned, 10, true);
    let pick = |rng: &mut Rng, alpha: &[u32]| char::from_u32(*rng.pick(alpha)).unwrap_or('a');
    for &e in &edge {
        let ec = char::from_u32(e).unwrap();
        v.push(ec.to_string());
        let mid: String = (0..rng.range(0, 3)).map(|_| pick(rng, &alpha)).collect();
        v.push(format!("{}{}", ec, mid));
        v.push(format!("{}{}", mid, ec));
        v.push(format!("{}{}{}", ec, mid, ec));
    }
    // every pair / triple over the (small) relevant alphabet, which includes byte-confusable
    // characters for Latin-1 code points of the pattern
    let chars: Vec<char> = alpha.iter().filter_map(|&c| char::from_u32(c)).collect();
    for &a in &chars {
        for &b in &chars {
            v.push(format!("{}{}", a, b));
        }
    }
    for _ in 0..n_random {
        let len = *rng.pick(&[1usize, 2, 3, 5, 8, 15, 16, 17, 31, 33]);
        let mut s = String::new();
        for _ in 0..len {
            if rng.chance(1, 4) {
                s.push(char::from_u32(*rng.pick(&edge)).unwrap());
            } else {
                s.push(pick(rng, &alpha));
            }
        }
        v.push(s);
    }
    // far haystacks (not under the slow tools): a short hostile haystack behind 15..4097 filler
    // characters, one of them multi-byte, so that scanning and loops run across word boundaries
    if n_random >= 6 {
        for filler in ['#', '\u{3042}'] {
            let n = if rng.chance(1, 8) { *rng.pick(&[1023usize, 4095, 4097]) } else { *rng.pick(&[15usize, 16, 17, 31, 32, 33, 63, 64, 65, 255, 256, 257]) };
            let base = v[rng.below(v.len())].clone();
            let mut s: String = std::iter::repeat(filler).take(n).collect();
            s.push_str(&base);
            v.push(s);
        }
    }
    v
}

pub fn run(cfg: &Cfg, rep: &mut Report) {
    let fl = |s: &str| Flags::from_str(s);
    let max_cases = cfg.opt_usize("max_cases", usize::MAX);
    let mut fixed = super::diff::fixed_corpus();
    for (p, f) in [
        ("(?<=\u{10000}+)a", ""), ("(?<=é*?)x", ""), ("(?<=(é)\\1)x", "i"), ("(\u{212A})\\1", "iu"), ("(?<=.{2})\u{7FF}", "s"), ("\\b.\\b", "s"), ("[^\u{800}]+?$", ""), ("(?<![\u{80}-\u{7FF}]{1,3})a", ""), ("[é\u{10000}]*$", ""),
        ("(?<=[\\q{é\u{10000}|é}])x", "v"), ("\\Bé\\B", ""), ("(?<=\\b)é", "iu"), (".*\u{10FFFF}", "s"), ("(?<=a|\u{10000})", ""), ("k+", "iu"), ("(?<=k{2,})s", "iu"),
    ] {
        fixed.push((p.to_string(), fl(f)));
    }
    // Under slow tools (Miri, valgrind) the supervisor bounds the number of cases; generating
    // programs is itself slow there, so the stream is shrunk to what can be consumed.
    let bounded = max_cases != usize::MAX;
    let spec = StreamSpec {
        n_struct: if bounded { max_cases.saturating_mul(2) } else { cfg.scaled(if cfg.quick() { 16_000 } else { 400_000 }) },
        enum_nodes: if bounded { 1 } else if cfg.quick() { 2 } else { 3 },
        enum_flags: vec![fl(""), fl("iu")],
        tweak,
        fixed, templates: !bounded };
    // under Miri an instruction costs ~150 µs (with the hook ticks): a quadratic backtracking case must give up early
    let fuel = if bounded { FUEL.min(8_000) } else { FUEL };
    let budget_s = cfg.opt_usize("budget_s", usize::MAX) as u64;
    let t0 = std::time::Instant::now();
    let mut cases = 0usize;
    for_each_program(cfg, rep, &spec, |p, rep, rng| {
        if cases >= max_cases {
            return;
        }
        let no_opt = p.idx % 5 == 0;
        if bounded {
            // wall-clock only bounds how much is explored under the slow tool, never a verdict
            if t0.elapsed().as_secs() > budget_s {
                rep.inc("skipped.miri_budget");
                return;
            }
            // folding a property class (hundreds of ranges) takes minutes under Miri
            let s = p.pattern_lossy();
            if p.flags.i && (s.contains("\\p{") || s.contains("\\P{")) {
                rep.inc("skipped.miri_icase_property");
                return;
            }
        }
        // Closing a legacy (non-unicode) /i class under Canonicalize costs tens of seconds per class
        // under Miri and touches no unsafe code: in bounded mode such programs run without `i`.
        let legacy_icase_class = bounded && p.flags.i && !p.flags.unicode_mode() && {
            let s = p.pattern_lossy();
            s.contains('[') || ["\\w", "\\W", "\\d", "\\D", "\\s", "\\S"].iter().any(|e| s.contains(e))
        };
        let adjusted;
        let p = if legacy_icase_class {
            let mut q = Program { idx: p.idx, pattern: p.pattern.clone(), flags: p.flags, mentioned: p.mentioned.clone(), source: p.source };
            q.flags.i = false;
            adjusted = q;
            &adjusted
        } else {
            p
        };
        let re = match engine::compile(&p.pattern, p.flags, no_opt) {
            Guarded::Ok(Ok(re)) => re,
            Guarded::Ok(Err(_)) => {
                rep.inc("skipped.compile_rejected");
                return;
            }
            Guarded::Panic(m) => {
                rep.violation(violation("C06", "compile panicked", p.describe().set("check", "c06"), m, "Ok or Err".into()));
                return;
            }
            Guarded::Fuel => return,
        };
        let mut hays = hostile_haystacks(p, rng, if max_cases == usize::MAX { 6 } else { 2 });
        let program_cap = if bounded { cases + 10 } else { usize::MAX };
        if bounded {
            // few cases per program, but varied: shuffle so that multi-byte haystacks are reached
            rng.shuffle(&mut hays);
        }
        #[cfg(feature = "hooks")]
        engine::hooks::reset();
        'outer: for hay in &hays {
            let mut starts = gen::boundaries(hay);
            starts.push(hay.len() + 1);
            starts.push(usize::MAX);
            for start in thin_starts(starts) {
                for api in [Api::Utf8, Api::Pike, Api::Ascii, Api::PikeAscii] {
                    if matches!(api, Api::Ascii | Api::PikeAscii) && !hay.is_ascii() {
                        continue;
                    }
                    if cases >= max_cases || cases >= program_cap {
                        break 'outer;
                    }
                    cases += 1;
                    let r = engine::find_all(&re, hay, start, api, fuel);
                    let h = fnv64(format!("{}|{}|{}|{:?}|{}", p.hash(), hay, start, api, no_opt).as_bytes());
                    match &r {
                        Guarded::Ok(ms) => {
                            rep.eval(h, !ms.is_empty() && !hay.is_ascii());
                            for m in ms {
                                rep.inc("ranges_checked");
                                if let Err(e) = engine::check_ranges(hay, m) {
                                    rep.violation(violation("C06", "a reported range is out of bounds or inside a UTF-8 sequence", case_json(p, hay, start).set("api", format!("{:?}", api)).set("no_opt", no_opt).set("check", "c06"), e, "0 <= start <= end <= len on char boundaries".into()));
                                    break 'outer;
                                }
                                // slicing with every reported range must not fail
                                let _ = &hay[m.range.0..m.range.1];
                                for c in m.caps.iter().flatten() {
                                    let _ = &hay[c.0..c.1];
                                }
                            }
                        }
                        Guarded::Fuel => {
                            rep.inc("evaluations");
                            rep.inconclusive("fuel");
                        }
                        Guarded::Panic(m) => {
                            rep.inc("evaluations");
                            rep.violation(violation("C06", "matching panicked (panic or failed debug assertion of the crate's own invariants)", case_json(p, hay, start).set("api", format!("{:?}", api)).set("no_opt", no_opt).set("check", "c06"), m.clone(), "no panic".into()));
                            break 'outer;
                        }
                    }
                }
            }
            // the string-returning APIs slice internally
            if cases < max_cases {
                cases += 1;
                let r = engine::guarded(fuel, || (re.replace_all(hay, "$1-$0"), re.replace(hay, "${a}")));
                if let Guarded::Panic(m) = r {
                    rep.violation(violation("C06", "replace panicked", case_json(p, hay, 0).set("api", "replace").set("check", "c06"), m, "no panic".into()));
                    break 'outer;
                }
            }
        }
        #[cfg(feature = "hooks")]
        {
            let k = engine::hooks::take();
            crate::report::absorb_hooks(rep, &k);
        }
        if rep.samples.len() < rep.max_samples && rep.get("programs") % 97 == 1 {
            rep.sample(p.describe().set("no_opt", no_opt).set("haystacks", hays.len()).set("example_haystack_hex", hex(hays.last().map(|s| s.as_bytes()).unwrap_or(b""))));
        }
    });
    rep.add("cases_run", cases as u64);
    let _ = J::Null;
}
