//! C08: the accepted language is the ECMAScript RegExp grammar for the given flags.
//! Engine `is_ok()` against the reference parser's `is_ok()`, both directions.

use super::common::*;
use crate::engine::{self, Guarded};
use crate::esref::{self, Flags};
use crate::gen::{self, GenCfg};
use crate::json::J;
use crate::report::{Cfg, Report};
use crate::rng::{fnv64, Rng};

fn modes() -> Vec<Flags> {
    vec![Flags::from_str(""), Flags::from_str("u"), Flags::from_str("v")]
}

struct Ctx<'a> {
    cfg: &'a Cfg,
    rep: &'a mut Report,
    idx: u64,
    reported: usize,
}

impl<'a> Ctx<'a> {
    /// Compare one (pattern, flags). Returns true if it was evaluated by this shard.
    fn one(&mut self, pat: &[u32], flags: Flags, source: &'static str) {
        self.idx += 1;
        let h = fnv64(format!("{:?}|{}", pat, flags.to_string()).as_bytes());
        if !self.cfg.mine(h) {
            return;
        }
        if let Some(r) = self.cfg.resume_after {
            if self.idx <= r {
                return;
            }
        }
        if self.idx % 512 == 0 {
            let d = J::obj().set("pattern", engine::cps_to_string_lossy(pat)).set("flags", flags.to_string()).set("source", source);
            self.rep.begin(self.idx, &d);
        }
        self.compare(pat, flags, source, h);
    }

    fn compare(&mut self, pat: &[u32], flags: Flags, source: &'static str, h: u64) {
        let reference = esref::parse(pat, flags);
        // regress's documented resource limits are permitted additional rejections
        if let Ok(p) = &reference {
            if p.ngroups > 60_000 || p.features.quantifiers > 60_000 {
                self.rep.inc("skipped.near_resource_limit");
                return;
            }
        }
        if esref::parser::nesting_depth(pat, flags).map(|d| d > 200).unwrap_or(false) {
            self.rep.inc("skipped.near_nesting_limit");
            return;
        }
        let got = match engine::compile(pat, flags, false) {
            Guarded::Ok(r) => r.map(|_| ()),
            other => {
                self.rep.inc("evaluations");
                let d = J::obj().set("pattern", engine::cps_to_string_lossy(pat)).set("pattern_cps", J::Arr(pat.iter().map(|&c| J::from(c)).collect())).set("flags", flags.to_string()).set("check", "c08");
                self.rep.violation(violation("C07", "compile did not return Ok or Err", d, other.describe_short(), "Ok or Err".into()));
                return;
            }
        };
        let mode = if flags.v {
            "v"
        } else if flags.u {
            "u"
        } else {
            "legacy"
        };
        let cell = match (reference.is_ok(), got.is_ok()) {
            (true, true) => "both_accept",
            (false, false) => "both_reject",
            (true, false) => "valid_but_rejected",
            (false, true) => "invalid_but_accepted",
        };
        self.rep.inc(&format!("cell.{}.{}", mode, cell));
        self.rep.inc(&format!("source.{}", source));
        // non-trivial: contains a syntax character
        let nontrivial = pat.iter().any(|&c| matches!(char::from_u32(c), Some('\\' | '(' | '[' | '{' | '?' | '*' | '+' | '|' | ')' | ']' | '}')));
        self.rep.eval(h, nontrivial);
        if reference.is_ok() != got.is_ok() {
            let d = J::obj()
                .set("pattern", engine::cps_to_string_lossy(pat))
                .set("pattern_cps", J::Arr(pat.iter().map(|&c| J::from(c)).collect()))
                .set("flags", flags.to_string())
                .set("source", source)
                .set("check", "c08");
            let obs = match &got {
                Ok(()) => "engine: Ok".to_string(),
                Err(e) => format!("engine: Err({})", e),
            };
            let exp = match &reference {
                Ok(_) => "reference grammar: valid".to_string(),
                Err(e) => format!("reference grammar: SyntaxError ({} at {})", e.msg, e.pos),
            };
            self.reported += 1;
            self.rep.violation(violation("C08", if reference.is_ok() { "a valid pattern is rejected" } else { "an invalid pattern is accepted" }, d, obs, exp));
        } else if self.rep.samples.len() < self.rep.max_samples && nontrivial && self.idx % 7919 == 0 {
            self.rep.sample(J::obj().set("pattern", engine::cps_to_string_lossy(pat)).set("flags", flags.to_string()).set("verdict", cell));
        }
    }
}

fn enumerate(ctx: &mut Ctx, alphabet: &[char], max_len: usize, source: &'static str) {
    let alpha: Vec<u32> = alphabet.iter().map(|&c| c as u32).collect();
    let mut cur: Vec<usize> = Vec::new();
    let ms = modes();
    // iterative odometer over all strings of length 0..=max_len
    for len in 0..=max_len {
        cur.clear();
        cur.resize(len, 0);
        loop {
            let pat: Vec<u32> = cur.iter().map(|&i| alpha[i]).collect();
            for m in &ms {
                ctx.one(&pat, *m, source);
            }
            // increment
            let mut k = len;
            loop {
                if k == 0 {
                    break;
                }
                k -= 1;
                cur[k] += 1;
                if cur[k] < alpha.len() {
                    break;
                }
                cur[k] = 0;
                if k == 0 {
                    k = usize::MAX;
                    break;
                }
            }
            if len == 0 || k == usize::MAX {
                break;
            }
        }
    }
}

fn tweak(g: &mut GenCfg, rng: &mut Rng) {
    g.props = rng.chance(1, 2);
    g.legacy_quirks = true;
    g.big_counts = rng.chance(1, 4);
    g.max_depth = rng.range(1, 4);
}

pub fn run(cfg: &Cfg, rep: &mut Report) {
    if let Some(r) = &cfg.replay {
        let case = r.get("case").unwrap_or(r);
        let flags = Flags::from_str(case.get("flags").and_then(|f| f.as_str()).unwrap_or(""));
        let pat: Vec<u32> = case.get("pattern_cps").and_then(|a| a.as_arr()).map(|a| a.iter().filter_map(|x| x.as_i64()).map(|x| x as u32).collect()).unwrap_or_default();
        let before = rep.violations;
        let mut ctx = Ctx { cfg, rep, idx: 0, reported: 0 };
        ctx.compare(&pat, flags, "replay", 0);
        if ctx.rep.violations == before {
            println!("REPLAY-HELD {}", case.to_string());
        }
        return;
    }
    let mut ctx = Ctx { cfg, rep, idx: 0, reported: 0 };
    // (a) exhaustive strings over a syntax alphabet
    let quick_alpha: Vec<char> = "a1\\()[]{}?*|^-,k".chars().collect();
    if cfg.quick() {
        enumerate(&mut ctx, &quick_alpha, 4, "exhaustive");
        // one seed-rotated alphabet (10 core symbols + 4 extras) at length 5
        let mut alpha: Vec<char> = "a\\()[]{}?|".chars().collect();
        let mut ex: Vec<char> = "+$.<>:=!&cuqpPdbBx0-^,1k*".chars().collect();
        let mut rng = Rng::new(cfg.seed ^ 0x08);
        rng.shuffle(&mut ex);
        alpha.extend(ex.iter().take(4));
        enumerate(&mut ctx, &alpha, 5, "exhaustive_rotating");
        ctx.rep.max("exhaustive_length", 4);
        ctx.rep.max("exhaustive_alphabet", quick_alpha.len() as u64);
    } else {
        enumerate(&mut ctx, &quick_alpha, 5, "exhaustive");
        // rotating subsets of the extended alphabet: the 10 core symbols plus 4 of the extras
        let core: Vec<char> = "a\\()[]{}?|".chars().collect();
        let extras: Vec<char> = "+$.<>:=!&cuqpPdbBx0-^,1k*".chars().collect();
        let mut rng = Rng::new(cfg.seed ^ 0x08);
        for _round in 0..6 {
            let mut alpha = core.clone();
            let mut ex = extras.clone();
            rng.shuffle(&mut ex);
            alpha.extend(ex.iter().take(4));
            enumerate(&mut ctx, &alpha, 5, "exhaustive_rotating");
        }
        ctx.rep.max("exhaustive_length", 5);
        ctx.rep.max("exhaustive_alphabet", quick_alpha.len() as u64);
    }
    // (b) targeted tables
    let ms = modes();
    for x in 0x20u32..0x7F {
        for tmpl in ["\\{}", "[\\{}]", "a\\{}", "\\{}+", "(?<n>a)\\{}", "[a-\\{}]", "[\\{}-z]", "\\{}{", "\\{}{1}", "[^\\{}]", "\\{}<n>", "(?<n>a)\\{}<n>", "(?<n>a)[\\{}]", "\\c{}", "[\\c{}]", "\\{}1", "(a)\\{}1", "\\u{}", "\\x{}0", "{}", "a{}", "[{}]", "[{}{}]", "[a{}{}b]", "(?{}:a)", "(?{}-{}:a)", "(?-{}:a)", "(?i{}:a)", "a{{}}", "a{1{}}", "a{1,{}}", "\\p{{}}", "\\p{L{}}", "[a-{}]", "[{}-a]", "(?<{}>a)", "(?<a{}>a)", "\\q{{}}", "[\\q{{}}]", "[\\q{a{}}]", "[a&&{}]", "[a--{}]", "[{}&&a]", "[^{}{}]"] {
            let s = tmpl.replace("{}", &char::from_u32(x).unwrap().to_string());
            let p = engine::to_cps(&s);
            for m in &ms {
                ctx.one(&p, *m, "escape_tables");
            }
        }
    }
    let specials: &[&str] = &[
        "\\k<a>", "\\k<a>(?<a>x)", "(?<a>x)\\k<a>", "(?<a>x)\\k<b>", "\\k", "\\k<", "\\k<a", "(?<a>x)\\k", "(?<a>x)\\k<", "(?<a>x)(?<a>y)", "(?<a>x)|(?<a>y)", "(?:(?<a>x)|y)(?:z|(?<a>w))", "(?<a>x)|(?<a>y)(?<a>z)", "((?<a>x))|(?<a>y)",
        "(?<a>(?<a>x))", "(?<a>x)|((?<a>y)|(?<a>z))", "(?:(?<a>x)|(?<a>y))\\k<a>", "\\1", "\\1(a)", "(a)\\2", "\\0", "\\00", "\\01", "\\08", "\\8", "\\9", "\\18", "(a)\\18", "\\377", "\\400", "[\\1]", "[\\8]", "[\\08]", "\\10(a)(b)(c)(d)(e)(f)(g)(h)(i)(j)",
        "a{", "a{1", "a{1,", "a{1,2", "a{,2}", "a{1}{2}", "a{2,1}", "a{1,1}", "a{01,1}", "a{99999999999999999999,99999999999999999998}", "a{99999999999999999999}", "{", "}", "]", "{1}", "{1,}", "{1,2}", "{a}", "a{1}?", "a{1}??", "a**", "a*?", "a*??", "a+*", "a?+", "^*", "$+", "\\b*", "\\B?", "(?=a)*", "(?!a)+", "(?<=a)*", "(?<!a)?", "(?=a){2}", "(?:)*", "()*",
        "[a-z]", "[z-a]", "[a-a]", "[-a]", "[a-]", "[--a]", "[a--]", "[---]", "[a-b-c]", "[\\d-a]", "[a-\\d]", "[\\d-\\d]", "[\\w-\\d]", "[]", "[^]", "[]]", "[[]", "[\\]]", "[", "[a", "[\\", "[^", "[a-", "[\\b]", "[\\B]", "[\\-]", "[\\c]", "[\\c1]", "[\\c_]", "[\\cA]", "[\\c*]", "\\c", "\\c1", "\\cA", "\\c*",
        "\\p{gc=sc=Greek}", "\\p{sc=gc=Lu}", "\\P{Script=Script_Extensions=Grek}", "\\p{gc=gc=Lu}", "[\\p{scx=gc=Lu}]", "\\p{gc==Lu}", "\\p{gc=Lu=}", "\\p{=gc=Lu}", "\\p{gc=Lu=Ll}", "\\p{Lu=gc}", "\\p{gc=}", "\\p{=Lu}", "\\p{gc=sc=}", "\\p{ASCII=gc=Lu}", "\\p{gc=ASCII}",
        // hex digits only: no sign, no space, no underscore (integer parsers of the host language accept some of these)
        "\\u{+41}", "\\u+041", "\\u{-41}", "\\u-041", "\\u{ 41}", "\\u{4_1}", "\\u{0x41}", "\\u00+1", "[\\u{+41}]", "[\\u+041-z]", "\\uD83D\\u+E00", "\\x+4", "\\x4+", "\\x-4", "(?<\\u{+61}>x)", "(?<a\\u+062>x)", "(?<\\u+061>x)", "\\u{+}", "\\u{+10FFFF}", "\\u{+110000}",
        "\\u", "\\u0", "\\u00", "\\u000", "\\u0041", "\\u{41}", "\\u{}", "\\u{110000}", "\\u{10FFFF}", "\\u{0000000041}", "\\u{41", "\\uD83D\\uDE00", "\\uD83D", "\\uDE00", "[\\uD83D\\uDE00]", "[\\uD83D\\uDE00-\\uD83D\\uDE01]", "\\x", "\\x4", "\\x41", "\\xZZ",
        "(?<a\\u0062>x)", "(?<\\u0061>x)", "(?<\\u{61}>x)", "(?<\\u{1D4D0}>x)", "(?<\\uD835\\uDCD0>x)", "(?<a\\>x)", "(?<1a>x)", "(?<a1>x)", "(?<>x)", "(?<a-b>x)", "(?<$>x)", "(?<_>x)", "(?<a\u{200C}>x)", "(?<\u{200C}a>x)", "(?<π>x)", "(?<a", "(?<a>", "(?<a>x",
        "(?i:a)", "(?-i:a)", "(?i-m:a)", "(?im-s:a)", "(?ii:a)", "(?i-i:a)", "(?-:a)", "(?i-:a)", "(?:a)", "(?ims-:a)", "(?-ims:a)", "(?x:a)", "(?i", "(?i:", "(?i:a", "(?i)", "(?i-)", "(?--i:a)", "(?i-m-s:a)", "(?u:a)", "(?", "(?a)", "(?P<a>x)", "(?#x)", "(?>a)", "(?|a)",
        "\\p{Lu}", "\\P{Lu}", "\\p{L}", "\\p{gc=Lu}", "\\p{General_Category=Lu}", "\\p{gc=L}", "\\p{sc=Greek}", "\\p{Script=Grek}", "\\p{scx=Greek}", "\\p{Script_Extensions=Latin}", "\\p{ASCII}", "\\p{Any}", "\\p{Assigned}", "\\p{lu}", "\\p{LU}", "\\p{ Lu}", "\\p{Lu }", "\\p{gc=}", "\\p{=Lu}", "\\p{gc}", "\\p{sc}", "\\p{sc=Lu}", "\\p{gc=Greek}", "\\p{Block=Basic_Latin}", "\\p{InBasicLatin}", "\\p{IsGreek}", "\\p{Greek}", "\\p{Letter}", "\\p{Uppercase_Letter}", "\\p{UppercaseLetter}", "\\p{uppercase_letter}", "\\p{Alphabetic}", "\\p{Alpha}", "\\p{alpha}", "\\p{Other_Alphabetic}", "\\p{Line_Break}", "\\p{Age=6.0}", "\\p{RGI_Emoji}", "\\P{RGI_Emoji}", "[\\p{RGI_Emoji}]", "[^\\p{RGI_Emoji}]", "[\\P{RGI_Emoji}]", "\\p{Emoji_Keycap_Sequence}", "\\p", "\\p{", "\\p{Lu", "\\pL", "\\p{}", "\\P", "\\p{L}{2}", "[\\p{L}-z]", "[a-\\p{L}]", "\\p{Script=Unknown}", "\\p{sc=Zzzz}", "\\p{cntrl}", "\\p{digit}", "\\p{punct}", "\\p{Combining_Mark}", "\\p{space}", "\\p{Qaac}", "\\p{sc=Qaac}", "\\p{sc=Qaai}",
        "[a&&b]", "[a&&&b]", "[a&&b&&c]", "[a&&b--c]", "[a--b&&c]", "[ab&&c]", "[a&&bc]", "[a-c&&b]", "[a&&a-c]", "[a&b]", "[a&]", "[&a]", "[&&a]", "[a&&]", "[a--]", "[--a]", "[a-b--c]", "[a--b-c]", "[[a]&&b]", "[[a-c]&&[b]]", "[^a&&b]", "[^[a]]", "[[^a]]", "[a[b[c[d]]]]", "[\\q{}]", "[\\q{a}]", "[\\q{ab}]", "[^\\q{a}]", "[^\\q{ab}]", "[^\\q{}]", "[^\\q{a|b}]", "[^\\q{a|bc}]", "[^[\\q{ab}]]", "[^\\q{ab}&&\\q{cd}]", "[^\\q{ab}&&a]", "[^a&&\\q{ab}]", "[^\\q{ab}--a]", "[^a--\\q{ab}]", "[^\\p{RGI_Emoji}&&a]", "[\\q{a|}]", "[\\q{|}]", "[\\q{a]", "[\\q]", "[\\qa]", "\\q{a}", "[\\q{(}]", "[\\q{\\(}]", "[\\q{a-b}]", "[\\q{a\\-b}]", "[\\q{&&}]", "[\\q{a&b}]",
        "[(]", "[)]", "[{]", "[}]", "[/]", "[-]", "[|]", "[\\(]", "[\\/]", "[\\-]", "[\\|]", "[!!]", "[!]", "[##]", "[#]", "[$$]", "[%%]", "[**]", "[++]", "[,,]", "[..]", "[::]", "[;;]", "[<<]", "[==]", "[>>]", "[??]", "[@@]", "[^^]", "[^^^]", "[a^^]", "[``]", "[~~]", "[&]", "[\\&]", "[\\!]", "[\\#]", "[\\%]", "[\\,]", "[\\:]", "[\\;]", "[\\<]", "[\\=]", "[\\>]", "[\\@]", "[\\`]", "[\\~]", "[\\$]", "[\\a]", "[\\_]", "[a-\\-]", "[\\--a]", "[\\b]", "[\\d]", "[\\d-a]", "[a-\\d]", "[\\d--\\d]", "[\\d&&\\w]",
        "(", ")", "()", "(()", "())", "(?:", "(?=", "(?!", "(?<=", "(?<!", "(?<", "|", "||", "a|", "|a", "(|)", "(?:|)", "\\", "a\\", "(\\)", "[\\]",
        "\\/", "/", "\\-", "\\a", "\\e", "\\g", "\\i", "\\_", "\\ ", "\\!", "\\@", "\\#", "\\%", "\\&", "\\=", "\\`", "\\~", "\\:", "\\;", "\\\"", "\\'", "\\<", "\\>", "\\,", "\\é", "\\\u{10000}",
    ];
    for s in specials {
        let p = engine::to_cps(s);
        for m in &ms {
            ctx.one(&p, *m, "targeted");
            // also with i/m/s, which must not change validity
        }
        ctx.one(&p, Flags::from_str("ims"), "targeted");
        ctx.one(&p, Flags::from_str("isv"), "targeted");
    }
    // (b2) quantifier bounds around every width at which a parser could saturate or overflow, with
    // and without leading zeros: validity depends only on the numeric order of the two bounds
    let bigs = [
        "0", "1", "2", "9", "10", "65535", "65536", "2147483647", "2147483648", "4294967295", "4294967296", "9007199254740991", "9007199254740992", "9223372036854775807", "9223372036854775808", "18446744073709551615", "18446744073709551616",
        "18446744073709551617", "99999999999999999999", "100000000000000000000", "100000000000000000001", "999999999999999999999", "340282366920938463463374607431768211455", "340282366920938463463374607431768211456",
    ];
    let mut bounds: Vec<String> = bigs.iter().map(|s| s.to_string()).collect();
    for b in ["1", "10", "18446744073709551616", "99999999999999999999"] {
        bounds.push(format!("0{}", b));
        bounds.push(format!("000{}", b));
    }
    for x in &bounds {
        for y in &bounds {
            for tmpl in ["a{X,Y}", "a{X,Y}?", "(?:a{X,Y}b)"] {
                let p = engine::to_cps(&tmpl.replace("X", x).replace("Y", y));
                for m in &ms {
                    ctx.one(&p, *m, "targeted");
                }
            }
        }
        for tmpl in ["a{X}", "a{X,}", "a{X", "a{X,", "a{,X}"] {
            let p = engine::to_cps(&tmpl.replace("X", x));
            for m in &ms {
                ctx.one(&p, *m, "targeted");
            }
        }
    }
    // (b3) numbers at every integer width in hex and decimal escapes, and group arrangements
    for ps in integer_width_patterns().into_iter().chain(group_arrangement_patterns()) {
        let p = engine::to_cps(&ps);
        for m in &ms {
            ctx.one(&p, *m, "targeted");
        }
    }
    // (c) printed structured patterns and their single-edit neighbours
    let n = cfg.scaled(if cfg.quick() { 12_000 } else { 400_000 });
    let mut rng = Rng::new(cfg.seed ^ 0xC08);
    let edits: Vec<u32> = "\\()[]{}?*+|^$.-,:=!<>&kpq1a".chars().map(|c| c as u32).collect();
    for k in 0..n {
        let flags = pick_flags(&mut rng);
        let alpha = match rng.weighted(&[5, 3]) {
            0 => gen::alphabet_ascii(),
            _ => gen::alphabet_fold(),
        };
        let mut g = GenCfg::new(flags, alpha);
        tweak(&mut g, &mut rng);
        let mut sub = rng.fork(k as u64);
        let out = gen::Gen::new(&mut sub, &g).generate();
        let p = engine::to_cps(&out.pattern);
        ctx.one(&p, flags, "structured");
        // neighbours
        for _ in 0..3 {
            let mut q = p.clone();
            if q.is_empty() {
                q.push(*rng.pick(&edits));
            } else {
                let pos = rng.below(q.len());
                match rng.below(3) {
                    0 => {
                        q.remove(pos);
                    }
                    1 => q.insert(pos, *rng.pick(&edits)),
                    _ => q[pos] = *rng.pick(&edits),
                }
            }
            ctx.one(&q, flags, "structured_neighbour");
        }
    }
}
