//! The property checks. Each `cNN::run` drives a workload through the real engine and applies
//! its monitor online, recording what was observed in the Report.

use crate::report::{Cfg, Report};

pub mod common;
pub mod framework;
pub mod diff;
pub mod c01;
pub mod c05;
pub mod c06;
pub mod c07;
pub mod c08;
pub mod c09;
pub mod c10;
pub mod c11;
pub mod c12;
#[cfg(feature = "utf16")]
pub mod c14;
#[cfg(feature = "utf16")]
pub mod u16mon;
pub mod c15;
#[cfg(feature = "pattern")]
pub mod c20;
pub mod c16;
pub mod c19;
pub mod c17;
pub mod c18;

pub fn run(cfg: &Cfg, rep: &mut Report) -> Result<(), String> {
    if !cfg.quick() {
        common::HUGE_ONE_IN.store(40, std::sync::atomic::Ordering::Relaxed);
    }
    match cfg.check.as_str() {
        "c01" => c01::run(cfg, rep),
        "c02" => diff::run_c02(cfg, rep),
        "c03" => diff::run_c03(cfg, rep),
        "c04" => diff::run_c04(cfg, rep),
        "c13" => diff::run_c13(cfg, rep),
        "c12" => c12::run(cfg, rep),
        "c11" => c11::run(cfg, rep),
        "c10" => c10::run(cfg, rep),
        "c09" => c09::run(cfg, rep),
        "c08" => c08::run(cfg, rep),
        "c06" => c06::run(cfg, rep),
        "c07" => c07::run(cfg, rep),
        "c19" => c19::run(cfg, rep),
        "c05" => c05::run(cfg, rep),
        #[cfg(feature = "utf16")]
        "c14" => c14::run(cfg, rep),
        #[cfg(feature = "utf16")]
        "c09u16" => u16mon::run(cfg, rep, u16mon::Mode::Iter),
        #[cfg(feature = "utf16")]
        "c06u16" => u16mon::run(cfg, rep, u16mon::Mode::RobustMem),
        #[cfg(feature = "utf16")]
        "c14u16" => u16mon::run(cfg, rep, u16mon::Mode::Robust),
        #[cfg(feature = "utf16")]
        "c05u16" => u16mon::run(cfg, rep, u16mon::Mode::Steps),
        #[cfg(feature = "utf16")]
        "c18u16" => c18::run_u16(cfg, rep),
        #[cfg(feature = "utf16")]
        "c11u16" => c11::run_u16(cfg, rep),
        "c15" => c15::run(cfg, rep),
        #[cfg(feature = "pattern")]
        "c20" => c20::run(cfg, rep),
        #[cfg(feature = "pattern")]
        "c18pat" => c18::run_pattern(cfg, rep),
        "c16" => c16::run(cfg, rep),
        "c17" => c17::run(cfg, rep),
        "c18" => c18::run(cfg, rep),
        "nop" => {}
        other => return Err(format!("unknown check {}", other)),
    }
    Ok(())
}

