//! C20: the Pattern-trait searcher honours the std Searcher / ReverseSearcher contract.
//! Only built in the `pattern` variant (nightly).

#![cfg(feature = "pattern")]

use super::common::*;
use crate::engine::{self, Guarded};
use crate::esref::Flags;
use crate::gen;
use crate::json::J;
use crate::report::{Cfg, Report};
use crate::rng::{fnv64, Rng};
use std::str::pattern::{Pattern, ReverseSearcher, SearchStep, Searcher};

const FUEL: u64 = 5_000_000;
const MAX_STEPS: usize = 10_000;

fn show(steps: &[SearchStep]) -> String {
    let v: Vec<String> = steps
        .iter()
        .map(|s| match s {
            SearchStep::Match(a, b) => format!("M({},{})", a, b),
            SearchStep::Reject(a, b) => format!("R({},{})", a, b),
            SearchStep::Done => "Done".into(),
        })
        .collect();
    v.join(" ")
}

fn span(s: &SearchStep) -> Option<(usize, usize)> {
    match s {
        SearchStep::Match(a, b) | SearchStep::Reject(a, b) => Some((*a, *b)),
        SearchStep::Done => None,
    }
}

/// Forward stream must tile [0, len] left to right; backward stream [0, len] right to left.
fn check_tiling(hay: &str, steps: &[SearchStep], forward: bool, complete: bool) -> Result<(), String> {
    let len = hay.len();
    let mut cursor = if forward { 0 } else { len };
    for s in steps {
        let Some((a, b)) = span(s) else { continue };
        if a > b || b > len {
            return Err(format!("step ({},{}) out of order / out of bounds", a, b));
        }
        if !hay.is_char_boundary(a) || !hay.is_char_boundary(b) {
            return Err(format!("step ({},{}) not on char boundaries", a, b));
        }
        if forward {
            if a != cursor {
                return Err(format!("step ({},{}) is not adjacent to the previous one (expected start {})", a, b, cursor));
            }
            cursor = b;
        } else {
            if b != cursor {
                return Err(format!("step ({},{}) is not adjacent to the previous one (expected end {})", a, b, cursor));
            }
            cursor = a;
        }
        if let SearchStep::Reject(a, b) = s {
            if a == b {
                return Err(format!("empty Reject({},{})", a, b));
            }
        }
    }
    if complete && cursor != if forward { len } else { 0 } {
        return Err(format!("the steps stop at {} and do not cover the haystack", cursor));
    }
    Ok(())
}

pub fn run(cfg: &Cfg, rep: &mut Report) {
    let f = |s: &str| Flags::from_str(s);
    let regexes: Vec<(&str, Flags)> = vec![
        ("\\d+", f("")), ("\\d*", f("")), ("", f("")), ("a", f("")), ("a*", f("")), ("a*?", f("")), ("\\b", f("")), ("(?=a)", f("")), ("é", f("")), ("é*", f("")), ("[^a]", f("")), (".", f("s")), ("^", f("m")), ("$", f("m")), ("a|é|", f("")), ("(a)(1)?", f("")),
        ("\\B", f("")), ("1+|a", f("")), ("zzz", f("")), ("(?<=a)1", f("")), ("(?<=a)", f("")), ("a+?", f("")), ("\u{10000}?", f("u")), ("[a1]{2}", f("")), ("^a", f("")), ("a$", f("")), ("(?:)", f("u")), ("\\s*", f("")), ("x*", f("")), ("aa|a", f("")),
        // anchors whose multiline-ness comes from an inline modifier rather than the regex-wide flag
        ("(?m:^)a", f("")), ("(?m:^a)1?", f("")), ("(?m:^)", f("")), ("(?m:$)", f("")), ("a(?m:$)", f("")), ("(?-m:^)a", f("m")), ("(?-m:^)", f("m")), ("a(?-m:$)", f("m")), ("(?m:^)|1", f("")), ("(?:(?m:^)|é)a", f("")),
        ("(?i:A)", f("")), ("(?s:.)", f("")), ("(?-s:.)", f("s")), ("(?-i:a)|1", f("i")), ("^a|^1", f("m")), ("(?=^)a", f("m")), ("(?<=^)a", f("m")), ("(?<=\n)a", f("")),
    ];
    // plus seeded structured patterns over the haystack alphabet (any accepted regex must honour
    // the contract, not only the hand-picked ones)
    let mut regexes: Vec<(String, Flags)> = regexes.into_iter().map(|(p, f)| (p.to_string(), f)).collect();
    {
        let mut grng = Rng::new(cfg.seed ^ 0x2020);
        for k in 0..cfg.scaled(if cfg.quick() { 250 } else { 4000 }) {
            let flags = pick_flags(&mut grng);
            let mut g = gen::GenCfg::new(flags, vec!['a' as u32, '1' as u32, 0xE9, '\n' as u32]);
            g.max_depth = grng.range(1, 3);
            let mut sub = grng.fork(k as u64);
            let out = gen::Gen::new(&mut sub, &g).generate();
            regexes.push((out.pattern, flags));
        }
    }
    rep.add("generated_regexes", regexes.len() as u64);
    let alphabet: Vec<u32> = vec!['a' as u32, '1' as u32, 0xE9];
    let mut hays = gen::all_strings(&alphabet, if cfg.quick() { 5 } else { 7 });
    for extra in ["ab12cd", "  a  ", "a\u{10000}a", "\u{10000}", "aaaa1111éééé", "a1\né\n", "\n\n", "a\na\n1a\na", "a\n\na", "1\na1\na\n", "\na", "1a1a1a1a1a1a1a1a1"] {
        hays.push(extra.to_string());
    }
    let mut idx = 0u64;
    for (ri, (pat, flags)) in regexes.iter().enumerate() {
        let re = match engine::compile(&engine::to_cps(pat), *flags, false) {
            Guarded::Ok(Ok(re)) => re,
            _ => continue,
        };
        for hay in &hays {
            idx += 1;
            let h = fnv64(format!("{}|{}", ri, hay).as_bytes());
            if !cfg.mine(h) {
                continue;
            }
            if let Some(r) = cfg.resume_after {
                if idx <= r {
                    continue;
                }
            }
            if idx % 64 == 0 {
                rep.begin(idx, &J::obj().set("pattern", pat.as_str()).set("flags", flags.to_string()).set("haystack", hay.as_str()));
            }
            let case = || J::obj().set("pattern", pat.as_str()).set("pattern_cps", J::Arr(engine::to_cps(pat).iter().map(|&c| J::from(c)).collect())).set("flags", flags.to_string()).set("haystack", hay.as_str()).set("haystack_hex", hex(hay.as_bytes())).set("start", 0).set("check", "c20");
            // (an eighth of the budget: the searchers may legitimately repeat some of find_iter's work)
            let expected: Vec<(usize, usize)> = match engine::find_all(&re, hay, 0, engine::Api::Utf8, FUEL / 8) {
                Guarded::Ok(v) => v.iter().map(|m| m.range).collect(),
                _ => {
                    rep.inconclusive("fuel");
                    continue;
                }
            };
            let has_empty = expected.iter().any(|(a, b)| a == b);
            let multibyte = !hay.is_ascii();
            // ---- forward stream
            let r = engine::guarded(FUEL, || {
                let mut s = (&re).into_searcher(hay);
                let mut steps = Vec::new();
                loop {
                    let st = s.next();
                    let done = matches!(st, SearchStep::Done);
                    steps.push(st);
                    if done || steps.len() > MAX_STEPS {
                        break;
                    }
                }
                let absorbing = (0..3).all(|_| matches!(s.next(), SearchStep::Done));
                (steps, absorbing)
            });
            match r {
                Guarded::Ok((steps, absorbing)) => {
                    rep.eval(fnv64(format!("fwd|{}|{}", ri, hay).as_bytes()), !expected.is_empty());
                    rep.inc("forward_streams");
                    if has_empty {
                        rep.inc("streams_with_empty_matches");
                    }
                    if multibyte {
                        rep.inc("streams_over_multibyte_text");
                    }
                    let got: Vec<(usize, usize)> = steps.iter().filter_map(|s| if let SearchStep::Match(a, b) = s { Some((*a, *b)) } else { None }).collect();
                    if let Err(e) = check_tiling(hay, &steps, true, true) {
                        rep.violation(violation("C20", "forward searcher steps do not tile the haystack", case().set("direction", "forward"), format!("{} -- {}", show(&steps), e), "adjacent, non-overlapping steps covering [0, len] on char boundaries".into()));
                    } else if got != expected {
                        rep.violation(violation("C20", "Match steps of the forward searcher differ from find_iter", case().set("direction", "forward"), show(&steps), format!("matches {:?}", expected)));
                    } else if !absorbing || !matches!(steps.last(), Some(SearchStep::Done)) {
                        rep.violation(violation("C20", "Done is not absorbing / never reached", case().set("direction", "forward"), show(&steps), "Done stays Done".into()));
                    }
                }
                Guarded::Fuel => rep.violation(violation("C20", "forward searcher does not finish", case(), "fuel exhausted".into(), "Done".into())),
                Guarded::Panic(m) => rep.violation(violation("C20", "forward searcher panicked", case(), m, "no panic".into())),
            }
            // ---- backward stream
            let r = engine::guarded(FUEL, || {
                let mut s = (&re).into_searcher(hay);
                let mut steps = Vec::new();
                loop {
                    let st = s.next_back();
                    let done = matches!(st, SearchStep::Done);
                    steps.push(st);
                    if done || steps.len() > MAX_STEPS {
                        break;
                    }
                }
                let absorbing = (0..3).all(|_| matches!(s.next_back(), SearchStep::Done));
                (steps, absorbing)
            });
            match r {
                Guarded::Ok((steps, absorbing)) => {
                    rep.eval(fnv64(format!("bwd|{}|{}", ri, hay).as_bytes()), !expected.is_empty());
                    rep.inc("backward_streams");
                    if let Err(e) = check_tiling(hay, &steps, false, true) {
                        rep.violation(violation("C20", "reverse searcher steps do not tile the haystack", case().set("direction", "backward"), format!("{} -- {}", show(&steps), e), "adjacent, non-overlapping steps covering [len, 0] on char boundaries".into()));
                    } else if !absorbing || !matches!(steps.last(), Some(SearchStep::Done)) {
                        rep.violation(violation("C20", "Done is not absorbing / never reached (reverse)", case().set("direction", "backward"), show(&steps), "Done stays Done".into()));
                    } else {
                        // every Match step must be a real match of the regex at that offset
                        for s in &steps {
                            if let SearchStep::Match(a, b) = s {
                                let real = matches!(engine::find_first(&re, hay, *a, engine::Api::Utf8, FUEL), Guarded::Ok(Some(m)) if m.range == (*a, *b));
                                if !real {
                                    rep.violation(violation("C20", "a Match step of the reverse searcher is not a match of the regex", case().set("direction", "backward"), show(&steps), format!("find_from(h, {}) = {}..{}", a, a, b)));
                                    break;
                                }
                            }
                        }
                    }
                }
                Guarded::Fuel => rep.violation(violation("C20", "reverse searcher does not finish", case(), "fuel exhausted".into(), "Done".into())),
                Guarded::Panic(m) => rep.violation(violation("C20", "reverse searcher panicked", case(), m, "no panic".into())),
            }
            // ---- seeded interleavings of next() and next_back()
            let mut rng = Rng::new(h ^ cfg.seed);
            for _ in 0..3 {
                let choices: Vec<bool> = (0..40).map(|_| rng.chance(1, 2)).collect();
                let r = engine::guarded(FUEL, || {
                    let mut s = (&re).into_searcher(hay);
                    let (mut fw, mut bw) = (Vec::new(), Vec::new());
                    let (mut fd, mut bd) = (false, false);
                    for &c in &choices {
                        if c && !fd {
                            let st = s.next();
                            fd = matches!(st, SearchStep::Done);
                            fw.push(st);
                        } else if !bd {
                            let st = s.next_back();
                            bd = matches!(st, SearchStep::Done);
                            bw.push(st);
                        }
                    }
                    // then drive both to Done (the seeded schedule decides which goes first)
                    let mut guard = 0;
                    let forward_first = choices[0];
                    while !(fd && bd) && guard < MAX_STEPS {
                        guard += 1;
                        if (forward_first || bd) && !fd {
                            let st = s.next();
                            fd = matches!(st, SearchStep::Done);
                            fw.push(st);
                        } else if !bd {
                            let st = s.next_back();
                            bd = matches!(st, SearchStep::Done);
                            bw.push(st);
                        }
                    }
                    (fw, bw)
                });
                if let Guarded::Ok((fw, bw)) = r {
                    // Once both directions have reported Done, either each stream alone covers the
                    // haystack (independent cursors, as implemented) or the two streams meet exactly
                    // (a double-ended searcher); Done with text visited by neither stream's own
                    // contiguous tiling, or with overlapping partial streams, is a contract breach.
                    let f_end = fw.iter().filter_map(span).map(|x| x.1).last().unwrap_or(0);
                    let b_start = bw.iter().filter_map(span).map(|x| x.0).last().unwrap_or(hay.len());
                    let both_done = matches!(fw.last(), Some(SearchStep::Done)) && matches!(bw.last(), Some(SearchStep::Done));
                    if both_done && !((f_end == hay.len() && b_start == 0) || f_end == b_start) {
                        rep.violation(violation(
                            "C20",
                            "interleaved next()/next_back(): both directions reported Done but their steps neither each cover the haystack nor meet exactly",
                            case().set("direction", "interleaved"),
                            format!("forward: {} (covers 0..{}) | backward: {} (covers {}..{})", show(&fw), f_end, show(&bw), b_start, hay.len()),
                            "each stream tiles [0, len], or the two streams meet".into(),
                        ));
                    }
                    // Whatever next_back() did in between, the forward Match steps are find_iter's
                    // matches in order: a prefix of them, and all of them once the forward stream
                    // alone has covered the haystack.
                    let fm: Vec<(usize, usize)> = fw.iter().filter_map(|s| if let SearchStep::Match(a, b) = s { Some((*a, *b)) } else { None }).collect();
                    let is_prefix = fm.len() <= expected.len() && fm[..] == expected[..fm.len()];
                    let complete = matches!(fw.last(), Some(SearchStep::Done)) && f_end == hay.len();
                    if !is_prefix || (complete && fm != expected) {
                        rep.violation(violation(
                            "C20",
                            "interleaved next()/next_back(): Match steps of the forward searcher are not find_iter's matches in order",
                            case().set("direction", "interleaved"),
                            format!("forward: {} | backward: {}", show(&fw), show(&bw)),
                            format!("a prefix of {:?}", expected),
                        ));
                    }
                    rep.inc("interleavings");
                    rep.eval(fnv64(format!("mix|{}|{}|{:?}", ri, hay, choices).as_bytes()), !expected.is_empty());
                    let e1 = check_tiling(hay, &fw, true, false);
                    let e2 = check_tiling(hay, &bw, false, false);
                    if let Err(e) = e1.and(e2) {
                        rep.violation(violation("C20", "interleaved next()/next_back(): one of the two step streams is not a contiguous tiling from its end", case().set("direction", "interleaved"), format!("forward: {} | backward: {} -- {}", show(&fw), show(&bw), e), "forward steps tile a prefix from 0, backward steps tile a suffix from len".into()));
                    }
                } else {
                    rep.violation(violation("C20", "interleaved searcher panicked or did not finish", case(), "panic/fuel".into(), "no panic".into()));
                }
            }
            // ---- str methods against a model computed from find_iter
            let r = engine::guarded(FUEL, || {
                let mut problems: Vec<(String, String, String)> = Vec::new();
                let mut chk = |name: &str, got: String, want: String| {
                    if got != want {
                        problems.push((name.to_string(), got, want));
                    }
                };
                chk("find", format!("{:?}", hay.find(&re)), format!("{:?}", expected.first().map(|m| m.0)));
                chk("contains", format!("{:?}", hay.contains(&re)), format!("{:?}", !expected.is_empty()));
                chk("matches", format!("{:?}", hay.matches(&re).collect::<Vec<_>>()), format!("{:?}", expected.iter().map(|(a, b)| &hay[*a..*b]).collect::<Vec<_>>()));
                chk("match_indices", format!("{:?}", hay.match_indices(&re).collect::<Vec<_>>()), format!("{:?}", expected.iter().map(|(a, b)| (*a, &hay[*a..*b])).collect::<Vec<_>>()));
                let mut pieces = Vec::new();
                let mut st = 0;
                for (a, b) in &expected {
                    pieces.push(&hay[st..*a]);
                    st = *b;
                }
                pieces.push(&hay[st..]);
                chk("split", format!("{:?}", hay.split(&re).collect::<Vec<_>>()), format!("{:?}", pieces));
                let mut p2: Vec<&str> = Vec::new();
                let mut st = 0;
                for (a, b) in expected.iter().take(1) {
                    p2.push(&hay[st..*a]);
                    st = *b;
                }
                p2.push(&hay[st..]);
                chk("splitn(2)", format!("{:?}", hay.splitn(2, &re).collect::<Vec<_>>()), format!("{:?}", p2));
                let mut pt = pieces.clone();
                if pt.last() == Some(&"") {
                    pt.pop();
                }
                chk("split_terminator", format!("{:?}", hay.split_terminator(&re).collect::<Vec<_>>()), format!("{:?}", pt));
                let mut rep_model = String::new();
                let mut st = 0;
                for (a, b) in &expected {
                    rep_model.push_str(&hay[st..*a]);
                    rep_model.push('#');
                    st = *b;
                }
                rep_model.push_str(&hay[st..]);
                chk("replace", hay.replace(&re, "#"), rep_model);
                let sp = match expected.first() {
                    Some((0, b)) => Some(&hay[*b..]),
                    _ => None,
                };
                chk("strip_prefix", format!("{:?}", hay.strip_prefix(&re)), format!("{:?}", sp));
                // trim_start_matches: strip matches while they are adjacent from 0
                let mut t = 0;
                for (a, b) in &expected {
                    if *a == t {
                        t = *b;
                    } else {
                        break;
                    }
                }
                chk("trim_start_matches", hay.trim_start_matches(&re).to_string(), hay[t..].to_string());
                // reverse forms: memory safety (no panic when slicing) and internal consistency
                let rm: Vec<&str> = hay.rmatches(&re).collect();
                let rmi: Vec<(usize, &str)> = hay.rmatch_indices(&re).collect();
                chk("rmatches vs rmatch_indices", format!("{:?}", rm), format!("{:?}", rmi.iter().map(|x| x.1).collect::<Vec<_>>()));
                chk("rfind", format!("{:?}", hay.rfind(&re)), format!("{:?}", rmi.first().map(|x| x.0)));
                let rs: Vec<&str> = hay.rsplit(&re).collect();
                let total: usize = rs.iter().map(|s| s.len()).sum::<usize>() + rm.iter().map(|s| s.len()).sum::<usize>();
                chk("rsplit pieces + rmatches cover the haystack", format!("{}", total), format!("{}", hay.len()));
                // Whatever a reverse search prefers among overlapping candidates, it finds a match
                // iff there is one; its leftmost match is not right of the first forward match; and a match reaching the end of the haystack (or, for an
                // empty one, sitting at its start) is not lost at the edges.
                chk("rfind finds a match iff find_iter has one", format!("{}", hay.rfind(&re).is_some()), format!("{}", !expected.is_empty()));
                if let Some(first) = expected.first() {
                    let lo = rmi.iter().map(|x| x.0).min();
                    chk("the leftmost reverse match is not right of the first find_iter match's end", format!("{}", lo.map(|l| l <= first.1).unwrap_or(false)), "true".to_string());
                }
                if expected.last().map(|m| m.1 == hay.len()).unwrap_or(false) {
                    chk("ends_with when a match ends at the end", format!("{}", hay.ends_with(&re)), "true".to_string());
                }
                if expected.first().map(|m| m.0 == 0).unwrap_or(false) {
                    chk("starts_with when a match starts at 0", format!("{}", hay.starts_with(&re)), "true".to_string());
                }
                problems
            });
            match r {
                Guarded::Ok(problems) => {
                    rep.inc("str_method_batteries");
                    rep.eval(fnv64(format!("str|{}|{}", ri, hay).as_bytes()), !expected.is_empty());
                    if let Some((name, got, want)) = problems.into_iter().next() {
                        rep.violation(violation("C20", &format!("str::{} with the regex pattern differs from the model built on find_iter", name), case().set("method", name.as_str()), got, want));
                    }
                }
                Guarded::Fuel => rep.inconclusive("fuel"),
                Guarded::Panic(m) => rep.violation(violation("C20", "a str method panicked with the regex pattern", case(), m, "no panic".into())),
            }
            if rep.samples.len() < rep.max_samples && has_empty && multibyte && idx % 211 == 0 {
                rep.sample(case().set("find_iter", format!("{:?}", expected)));
            }
        }
    }
}
