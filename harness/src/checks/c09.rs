//! C09: match iteration follows lastIndex semantics and always progresses.

use super::common::*;
use super::framework::*;
use crate::engine::{self, Api, CpIndex, EMatch, Guarded};
use crate::esref::{self, Flags, RefLimits};
use crate::gen::{self, GenCfg};
use crate::report::{Cfg, Report};
use crate::rng::Rng;

const FUEL: u64 = 3_000_000;

pub struct C09 {
    limits: RefLimits,
}

pub struct C09Prep {
    re: regress::Regex,
    pat: Option<esref::Pattern>,
    kind: &'static str,
}

fn next_boundary(hay: &str, mut i: usize) -> usize {
    i += 1;
    while i < hay.len() && !hay.is_char_boundary(i) {
        i += 1;
    }
    i
}

/// Drive an iterator by hand: collect until None, then call next() `extra` more times.
fn history(re: &regress::Regex, hay: &str, start: usize, api: Api, extra: usize) -> Guarded<(Vec<EMatch>, bool)> {
    engine::guarded(FUEL, || {
        let mut out = Vec::new();
        let mut absorbing = true;
        macro_rules! drive {
            ($it:expr) => {{
                let mut it = $it;
                let mut ended = false;
                loop {
                    match it.next() {
                        Some(m) => {
                            out.push(EMatch::from(&m));
                            if out.len() > engine::MAX_MATCHES {
                                break;
                            }
                        }
                        None => {
                            ended = true;
                            break;
                        }
                    }
                }
                // (a history cut off at the cap has not returned None yet)
                for _ in 0..(if ended { extra } else { 0 }) {
                    if it.next().is_some() {
                        absorbing = false;
                    }
                }
            }};
        }
        match api {
            Api::Utf8 => drive!(re.find_from(hay, start)),
            Api::Ascii => drive!(re.find_from_ascii(hay, start)),
            #[cfg(feature = "re-pikevm")]
            Api::Pike => drive!(regress::backends::find::<regress::backends::PikeVMExecutor>(re, hay, start)),
            #[cfg(feature = "re-pikevm")]
            Api::PikeAscii => drive!(regress::backends::find_ascii::<regress::backends::PikeVMExecutor>(re, hay, start)),
            #[cfg(not(feature = "re-pikevm"))]
            _ => {}
        }
        (out, absorbing)
    })
}

impl C09 {
    fn check_api(&self, p: &C09Prep, hay: &str, start: usize, api: Api, name: &str, rep: &mut Option<&mut Report>) -> Option<Verdict> {
        let viol = |what: String, observed: String, expected: String| Some(Verdict::Violated { property: "C09", what, observed, expected });
        let (seq, absorbing) = match history(&p.re, hay, start, api, 3) {
            Guarded::Ok(x) => x,
            Guarded::Fuel => return Some(Verdict::Inconclusive("fuel")),
            Guarded::Panic(m) => return Some(Verdict::Violated { property: "C06", what: format!("{} iterator panicked", name), observed: m, expected: "no panic".into() }),
        };
        if !absorbing {
            return viol(format!("{}: next() returned a match after it had returned None", name), engine::show_matches(&seq), "None is absorbing".into());
        }
        // history invariants
        let nchars = hay.chars().count();
        if seq.len() > nchars + 1 {
            return viol(format!("{}: more matches than character positions plus one", name), engine::show_matches(&seq), format!("at most {}", nchars + 1));
        }
        if start > hay.len() && !seq.is_empty() {
            return viol(format!("{}: a start beyond the end yielded matches", name), engine::show_matches(&seq), "nothing".into());
        }
        for (k, m) in seq.iter().enumerate() {
            if let Err(e) = engine::check_ranges(hay, m) {
                return Some(Verdict::Violated { property: "C06", what: format!("{}: invalid range", name), observed: e, expected: "valid range".into() });
            }
            if m.range.0 < start.min(hay.len()) {
                return viol(format!("{}: match starts before the start offset", name), engine::show_matches(&seq), format!("all starts >= {}", start));
            }
            if k > 0 {
                let prev = &seq[k - 1];
                if !(prev.range.0 < m.range.0 && prev.range.1 <= m.range.0) {
                    return viol(format!("{}: matches not strictly increasing / overlapping", name), engine::show_matches(&seq), "increasing, non-overlapping".into());
                }
            }
        }
        // unfold with a fresh first-match per cursor position
        let mut model: Vec<EMatch> = Vec::new();
        let mut cursor = start;
        loop {
            if cursor > hay.len() || model.len() > engine::MAX_MATCHES {
                break;
            }
            let first = match engine::find_first(&p.re, hay, cursor, api, FUEL) {
                Guarded::Ok(f) => f,
                Guarded::Fuel => return Some(Verdict::Inconclusive("fuel")),
                Guarded::Panic(m) => return Some(Verdict::Violated { property: "C06", what: format!("{} find_from panicked", name), observed: m, expected: "no panic".into() }),
            };
            let Some(m) = first else { break };
            cursor = if m.range.1 > m.range.0 { m.range.1 } else { next_boundary(hay, m.range.1) };
            if let Some(r) = rep.as_deref_mut() {
                if m.range.1 == m.range.0 {
                    r.inc("empty_matches_in_histories");
                    if m.range.1 < hay.len() && hay[m.range.1..].chars().next().map(|c| c.len_utf8() > 1).unwrap_or(false) {
                        r.inc("empty_match_before_multibyte_char");
                    }
                }
            }
            model.push(m);
        }
        if model != seq {
            return viol(format!("{}: iterator sequence differs from unfold(first match, advance rule)", name), engine::show_matches(&seq), engine::show_matches(&model));
        }
        if let Some(r) = rep.as_deref_mut() {
            r.inc(&format!("histories.{}", name));
            if seq.len() >= 2 && seq.windows(2).any(|w| w[0].range.1 == w[1].range.0) {
                r.inc("histories_with_adjacent_matches");
            }
        }
        None
    }
}

impl PCheck for C09 {
    type Prepared = C09Prep;
    fn name(&self) -> &'static str {
        "c09"
    }
    fn prepare(&self, pat: &[u32], flags: Flags, rep: Option<&mut Report>) -> Prep<C09Prep> {
        let re = match engine::compile(pat, flags, false) {
            Guarded::Ok(Ok(re)) => re,
            Guarded::Ok(Err(_)) => return Prep::Skip("compile_rejected"),
            other => return Prep::Violated { property: "C07", what: "compile did not return Ok or Err".into(), observed: other.describe_short(), expected: "Ok or Err".into() },
        };
        #[cfg(feature = "hooks")]
        let kind = engine::hooks::start_pred_kind(&re);
        #[cfg(not(feature = "hooks"))]
        let kind = "unknown";
        if let Some(rep) = rep {
            rep.inc(&format!("predicate.{}", kind));
        }
        Prep::Ready(C09Prep { re, pat: esref::parse(pat, flags).ok(), kind })
    }
    fn starts(&self, hay: &str) -> Vec<usize> {
        let mut v = gen::boundaries(hay);
        v.push(hay.len() + 1);
        v.push(usize::MAX);
        v
    }
    fn case(&self, p: &C09Prep, hay: &str, start: usize, mut rep: Option<&mut Report>) -> Verdict {
        let _ = p.kind;
        if let Some(v) = self.check_api(p, hay, start, Api::Utf8, "find_from", &mut rep) {
            return v;
        }
        if let Some(v) = self.check_api(p, hay, start, Api::Pike, "pikevm", &mut rep) {
            return v;
        }
        if hay.is_ascii() {
            if let Some(v) = self.check_api(p, hay, start, Api::Ascii, "find_from_ascii", &mut rep) {
                return v;
            }
        }
        // find_iter(t) is find_from(t, 0) and find(t) is its first element
        if start == 0 {
            let r = engine::guarded(FUEL, || {
                let a: Vec<EMatch> = p.re.find_iter(hay).take(engine::MAX_MATCHES).map(|m| EMatch::from(&m)).collect();
                let b: Vec<EMatch> = p.re.find_from(hay, 0).take(engine::MAX_MATCHES).map(|m| EMatch::from(&m)).collect();
                let c = p.re.find(hay).map(|m| EMatch::from(&m));
                (a, b, c)
            });
            if let Guarded::Ok((a, b, c)) = r {
                if let Some(r) = rep.as_deref_mut() {
                    r.inc("find_iter_vs_find_from_comparisons");
                }
                if a != b || c.as_ref() != b.first() {
                    return Verdict::Violated { property: "C09", what: "find_iter / find differ from find_from(text, 0)".into(), observed: format!("find_iter: {} | find: {}", engine::show_matches(&a), show_opt(&c)), expected: format!("find_from(0): {}", engine::show_matches(&b)) };
                }
            }
        }
        // The whole sequence against the reference model (text before `start` stays visible).
        let mut nontrivial = false;
        if let (Some(pat), true) = (&p.pat, start <= hay.len()) {
            let idx = CpIndex::new(hay);
            if let Some(ci) = idx.cp_of_byte(start) {
                let cps = engine::to_cps(hay);
                let (r, _st) = esref::find_all(pat, &cps, ci, self.limits, engine::MAX_MATCHES);
                match r {
                    Ok(ms) => {
                        let expected: Vec<EMatch> = ms.iter().map(|m| engine::ref_to_ematch(m, &idx)).collect();
                        if let Guarded::Ok(got) = engine::find_all(&p.re, hay, start, Api::Utf8, FUEL) {
                            if got != expected {
                                return Verdict::Violated {
                                    property: "C09",
                                    what: "find_from sequence differs from the reference model's lastIndex iteration".into(),
                                    observed: engine::show_matches(&got),
                                    expected: engine::show_matches(&expected),
                                };
                            }
                            nontrivial = got.len() >= 1;
                            if let Some(r) = rep.as_deref_mut() {
                                r.inc("histories_checked_against_reference");
                                if start > 0 && !got.is_empty() {
                                    r.inc("histories_with_nonzero_start_and_match");
                                }
                            }
                        }
                    }
                    Err(_) => {
                        if let Some(r) = rep.as_deref_mut() {
                            r.inconclusive("ref");
                        }
                    }
                }
            }
        }
        Verdict::Held { nontrivial }
    }
}

fn tweak(g: &mut GenCfg, rng: &mut Rng) {
    g.max_depth = rng.range(1, 3);
    g.long_literals = rng.chance(1, 6);
}

pub fn run(cfg: &Cfg, rep: &mut Report) {
    let fl = |s: &str| Flags::from_str(s);
    let mut fixed = super::diff::fixed_corpus();
    for (p, f) in [
        ("a*", ""), ("\\b", ""), ("(?=a)", ""), ("", ""), ("a*?", ""), ("(?:)", "u"), ("é*", ""), ("\\B|a", ""), ("(?<=a)", ""), ("(?<!a)|b", ""),
        ("^", "m"), ("$", "m"), ("^a|", ""), ("^", ""), ("a|", ""), ("\u{10000}*", "u"), ("[^a]*", ""), ("x*y*", ""), ("(?<=^|a)b*", ""), ("\\d*", ""),
    ] {
        fixed.push((p.to_string(), fl(f)));
    }
    fixed.extend(super::diff::first_position_shapes());
    let spec = StreamSpec {
        n_struct: cfg.scaled(if cfg.quick() { 8_000 } else { 300_000 }),
        enum_nodes: if cfg.quick() { 3 } else { 4 },
        enum_flags: vec![fl(""), fl("m"), fl("iu")],
        tweak,
        fixed, templates: true };
    let opts = DriveOpts { budget: if cfg.quick() { 100 } else { 300 }, n_long: 3, n_plant: 2, ascii_only: false, sample_every: 199 };
    drive(&C09 { limits: RefLimits { max_steps: 300_000, max_depth: 20_000 } }, cfg, rep, &spec, &opts);
}
