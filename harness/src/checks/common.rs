//! Shared pieces: the program stream (generators + sharding + crash attribution), haystack
//! construction, violation records.

use crate::engine::{self, EMatch};
use crate::esref::Flags;
use crate::gen::{self, GenCfg};
use crate::json::J;
use crate::report::{Cfg, Report};
use crate::rng::{fnv64, fnv64_u32s, Rng};

#[derive(Clone, Debug)]
pub struct Program {
    pub idx: u64,
    pub pattern: Vec<u32>,
    pub flags: Flags,
    pub mentioned: Vec<u32>,
    pub source: &'static str,
}

impl Program {
    pub fn hash(&self) -> u64 {
        fnv64_u32s(&self.pattern) ^ fnv64(self.flags.to_string().as_bytes()).rotate_left(17)
    }
    pub fn pattern_lossy(&self) -> String {
        engine::cps_to_string_lossy(&self.pattern)
    }
    pub fn describe(&self) -> J {
        J::obj()
            .set("pattern", self.pattern_lossy())
            .set("pattern_cps", J::Arr(self.pattern.iter().map(|&c| J::from(c)).collect()))
            .set("flags", self.flags.to_string())
            .set("source", self.source)
    }
}

pub fn case_json(p: &Program, hay: &str, start: usize) -> J {
    p.describe().set("haystack", hay).set("haystack_hex", hex(hay.as_bytes())).set("start", start)
}

pub fn hex(b: &[u8]) -> String {
    let mut s = String::new();
    for x in b {
        s.push_str(&format!("{:02x}", x));
    }
    s
}

pub fn unhex(s: &str) -> Vec<u8> {
    let b = s.as_bytes();
    let mut out = Vec::new();
    let mut i = 0;
    while i + 1 < b.len() {
        out.push(u8::from_str_radix(std::str::from_utf8(&b[i..i + 2]).unwrap_or("0"), 16).unwrap_or(0));
        i += 2;
    }
    out
}

pub fn violation(property: &str, what: &str, case: J, observed: String, expected: String) -> J {
    J::obj().set("property", property).set("what", what).set("case", case).set("observed", observed).set("expected", expected)
}

/// Flag sets with weights: every combination of {i,m,s} x {none,u,v}.
pub fn pick_flags(rng: &mut Rng) -> Flags {
    let i = rng.chance(2, 5);
    let m = rng.chance(1, 4);
    let s = rng.chance(1, 4);
    let uv = rng.weighted(&[4, 3, 3]);
    Flags { i, m, s, u: uv == 1, v: uv == 2, n: rng.chance(1, 5) }
}

/// What a stream of programs should contain.
#[derive(Clone, Debug)]
pub struct StreamSpec {
    /// Number of random structured programs (before sharding).
    pub n_struct: usize,
    /// Exhaustive enumeration up to this many AST nodes (0 = none).
    pub enum_nodes: usize,
    /// Flag sets for the enumeration.
    pub enum_flags: Vec<Flags>,
    /// Tweaks applied to every GenCfg.
    pub tweak: fn(&mut GenCfg, &mut Rng),
    /// Fixed extra programs (pattern, flags).
    pub fixed: Vec<(String, Flags)>,
    /// Include the cross-feature template programs.
    pub templates: bool,
}

pub fn no_tweak(_: &mut GenCfg, _: &mut Rng) {}

/// Cross-feature templates: structural skeletons whose holes are filled with literals of
/// different lengths (crossing the 16-byte literal chunking), fold-special characters, class
/// strings, backreferences and nested lookarounds. They target interactions that independent
/// random choices reach only with tiny probability (e.g. a long literal left of a lookaround
/// nested inside a lookbehind).
pub fn template_programs() -> Vec<(String, Flags)> {
    let lits = ["a", "ab", "abcdefghijklmnopq", "abcdefghijklmnopqrstuvwxyz0123456", "k", "é", "aé\u{10000}b", "kKs"];
    let inner = ["(?=!)", "(?!x)", "(?<=b)", "(?<!x)", "(?=(!))", "(?<=(b))", "\\b", "(?:)", "(z)?", "[ab]", "\\1"];
    let skeletons = [
        // lookbehind containing a literal and a nested lookaround at either side
        "(?<={L}{I})!", "(?<={I}{L})!", "(?<!{L}{I})!", "(?<!{I}{L})!", "(?<={L}{I}{L})!",
        // lookahead containing a lookbehind with a literal
        "(?=(?<={L})!)", "(?=!(?<={L}!))", "x?(?<=(?:{L}|{I}){L})!",
        // captures and backreferences around a lookbehind
        "({L})(?<=\\1{I})!", "(?<=({L}){I})\\1?!", "(?<=\\1({L}))!",
        // loops around literals next to lookarounds
        "(?:{L}{I})+!", "(?:{L}){2}{I}!", "(?<=(?:{L}){2}{I})!",
        // captures in a lookbehind in front of a counted alternation with arms of different length (the
        // order in which the optimizer's unrolled copies are tried decides the capture), and a
        // backreference directly after a lookbehind that captured
        "(?<=(\\w*)(?:{L}|b{L}){1,2})!", "(?<=(.*?)(?:{L}|{L}b){1,3})!", "(\\w*?)(?:{L}|{L}b){1,2}!", "(?<=({L}))\\1!", "(?<=(\\w))\\1!", "(?<=(?<q>[{L}x]))\\k<q>!", "(?<=({L}){I})\\1!",
        // the literal itself inside a lookaround nested in a lookaround of the other / same direction
        "(?<=-(?={L}))", "(?<=-(?!{L}))-?", "(?<=(?={L})-)", "(?<=-(?={L}{I}))", "(?=(?<={L})!)", "(?=-(?<=-{L}-))", "(?<=(?<={L})-)", "(?<=(?=(?<=-){L}))", "(?<!-(?={L}))-?", "(?=(?=(?<={L}))!)", "(?<=-(?=(?:{L}|-)!))",
    ];
    let mut v = Vec::new();
    for sk in skeletons {
        for l in lits {
            for i in inner {
                let p = sk.replace("{L}", l).replace("{I}", i);
                for fl in ["", "iu"] {
                    v.push((p.clone(), Flags::from_str(fl)));
                }
            }
        }
    }
    // class strings (v) in the same positions
    let strs = ["[\\q{ab|abc}]", "[\\q{ab|a}]", "[\\q{aé|a}]", "[\\q{kK|k}]", "[\\q{abcdefghijklmnopqr|ab}]", "\\p{Emoji_Keycap_Sequence}"];
    for sk in ["(?<={L}{I})!", "(?<={I}{L})!", "{L}{I}!", "(?:{L})+{I}", "({L})\\1", "(?<=({L}))\\1?", "{L}(c?)", "(?<!{L})!", "(?-i:{L}){I}!", "(?i:{L}){I}!", "(?<=(?-i:{L}))!"] {
        for l in strs {
            for i in ["(?=!)", "(?<=b)", "(?:)", "c?"] {
                let p = sk.replace("{L}", l).replace("{I}", i);
                for fl in ["v", "iv"] {
                    v.push((p.clone(), Flags::from_str(fl)));
                }
            }
        }
    }
    v
}

/// Case-insensitive backreference programs over characters whose case partners differ in encoded
/// length (UTF-8 and UTF-16): the referenced text and the text it must match have different byte
/// lengths, at either end of the input.
const FOLD_FAMILIES: [&[&str]; 8] = [
    &["k", "K", "\u{212A}"], &["s", "S", "\u{17F}"], &["\u{E5}", "\u{C5}", "\u{212B}"], &["\u{3C9}", "\u{3A9}", "\u{2126}"],
    &["\u{DF}", "\u{1E9E}"], &["\u{240}", "\u{2C7F}"], &["\u{10428}", "\u{10400}"], &["\u{3B8}", "\u{3D1}", "\u{3F4}", "\u{398}"],
];

pub fn foldref_programs() -> Vec<(String, Flags)> {
    let skeletons = ["({L})\\1", "^({L})\\1$", "(?<=\\1({L}))", "({L})(?<=\\1)", "(?:({L})\\1)+", "(?<a>{L})\\k<a>$", "({L})x?\\1", "({L}{L})\\1", "({L})(?=\\1)", "(?<!\\1({L}))!", "({L}+)\\1", "({L})\\1{2}"];
    let mut v = Vec::new();
    for fam in FOLD_FAMILIES {
        for l in fam.iter() {
            for sk in skeletons {
                let p = sk.replace("{L}", l);
                for fl in ["i", "iu", "iv"] {
                    v.push((p.clone(), Flags::from_str(fl)));
                }
            }
        }
    }
    v
}

pub fn foldref_haystacks(pattern: &str) -> Vec<String> {
    let mut v = Vec::new();
    for fam in FOLD_FAMILIES {
        if !fam.iter().any(|m| pattern.contains(m)) {
            continue;
        }
        let mut seqs: Vec<String> = Vec::new();
        for a in fam.iter() {
            for b in fam.iter() {
                seqs.push(format!("{}{}", a, b));
                for c in fam.iter() {
                    seqs.push(format!("{}{}{}", a, b, c));
                }
            }
        }
        for a in fam.iter() {
            for b in fam.iter() {
                seqs.push(format!("{}{}{}{}", a, b, b, a));
                seqs.push(format!("{}{}{}{}", a, a, b, b));
                seqs.push(format!("{}x{}", a, b));
            }
        }
        for s in seqs {
            for pre in ["", "x"] {
                for post in ["", "!"] {
                    v.push(format!("{}{}{}", pre, s, post));
                }
            }
        }
    }
    v
}

const TEMPLATE_HAY_LITS: [&str; 17] = ["a", "ab", "AB", "aB", "abc", "abcdefghijklmnopq", "abcdefghijklmnopqrstuvwxyz0123456", "k", "K", "\u{212A}", "é", "É", "aé\u{10000}b", "kKs", "abcdefghijklmnopqr", "aé", "1\u{FE0F}\u{20E3}"];

/// Haystacks for template programs: the literals themselves followed / preceded by the
/// characters the skeletons look for.
pub fn template_haystacks() -> Vec<String> {
    let mut v = Vec::new();
    for l in TEMPLATE_HAY_LITS {
        let l = l.to_string();
        for pre in ["", "b", "x", "-"] {
            for post in ["!", "!!", "b!", "c!", "", "-", "-!", "a!"] {
                v.push(format!("{}{}{}", pre, l, post));
                v.push(format!("{}{}{}{}", pre, l, l, post));
            }
        }
    }
    v
}

/// Drive `f` over this shard's part of the program stream.
pub fn for_each_program(cfg: &Cfg, rep: &mut Report, spec: &StreamSpec, mut f: impl FnMut(&Program, &mut Report, &mut Rng)) {
    let mut idx: u64 = 0;
    let resume = cfg.resume_after;
    let mut run_one = |p: Program, rep: &mut Report| {
        if let Some(r) = resume {
            if p.idx <= r {
                return;
            }
        }
        let h = p.hash();
        if !cfg.mine(h) {
            return;
        }
        if !rep.seen.insert(h ^ 0x5bd1e995) {
            rep.inc("programs_duplicate");
            return;
        }
        rep.inc("programs");
        rep.inc(&format!("programs.source.{}", p.source));
        rep.begin(p.idx, &p.describe());
        let mut prng = Rng::new(h ^ cfg.seed.wrapping_mul(0x9E3779B97F4A7C15));
        f(&p, rep, &mut prng);
    };
    // 1. fixed corpus
    for (pat, fl) in &spec.fixed {
        idx += 1;
        let p = Program { idx, pattern: engine::to_cps(pat), flags: *fl, mentioned: mentioned_guess(pat), source: "fixed" };
        run_one(p, rep);
    }
    // 1b. cross-feature templates
    if spec.templates {
        for (pat, fl) in template_programs() {
            idx += 1;
            let p = Program { idx, pattern: engine::to_cps(&pat), flags: fl, mentioned: mentioned_guess(&pat), source: "template" };
            run_one(p, rep);
        }
    }
    if spec.templates {
        for (pat, fl) in foldref_programs() {
            idx += 1;
            let p = Program { idx, pattern: engine::to_cps(&pat), flags: fl, mentioned: mentioned_guess(&pat), source: "foldref" };
            run_one(p, rep);
        }
    }
    // 2. exhaustive small scope
    if spec.enum_nodes > 0 {
        let scope = gen::EnumScope::default_scope();
        let mut memo = Vec::new();
        for n in 1..=spec.enum_nodes {
            let es = gen::enum_exact(n, &scope, &mut memo);
            for e in es.iter() {
                let mut s = String::new();
                gen::print_e(e, &scope, &mut s);
                for fl in &spec.enum_flags {
                    idx += 1;
                    let p = Program { idx, pattern: engine::to_cps(&s), flags: *fl, mentioned: vec!['a' as u32, 'b' as u32], source: "enum" };
                    run_one(p, rep);
                }
            }
        }
        rep.max("enum_nodes", spec.enum_nodes as u64);
    }
    // 3. structured random
    let mut rng = Rng::new(cfg.seed ^ 0xC0FFEE);
    for _ in 0..spec.n_struct {
        idx += 1;
        let flags = pick_flags(&mut rng);
        let alpha = match rng.weighted(&[5, 3, 2]) {
            0 => gen::alphabet_ascii(),
            1 => gen::alphabet_fold(),
            _ => gen::alphabet_multibyte(),
        };
        // small sub-alphabet so that haystacks can be enumerated
        let mut sub = alpha.clone();
        rng.shuffle(&mut sub);
        sub.truncate(rng.range(2, 4));
        let mut g = GenCfg::new(flags, sub);
        g.max_depth = rng.range(2, 4);
        (spec.tweak)(&mut g, &mut rng);
        let mut sub_rng = rng.fork(idx);
        let out = gen::Gen::new(&mut sub_rng, &g).generate();
        let p = Program { idx, pattern: engine::to_cps(&out.pattern), flags, mentioned: out.mentioned, source: "struct" };
        run_one(p, rep);
    }
    // 4. short class ranges that begin / end next to a case-related code point, under i with and
    // without u/v (the case closure of a class walks compressed fold tables from arbitrary range
    // ends); the haystack alphabet is the whole case orbit of that code point plus the range ends.
    if spec.templates {
        let mut rng = Rng::new(cfg.seed ^ 0xF01D_4A46);
        let related: Vec<u32> = (0xB5u32..0x1F000).filter(|&c| char::from_u32(c).is_some() && gen::partners(c).len() > 1).collect();
        // C01 walks every case-related code point with every start offset 0..=3 and end offset 0..=1;
        // the other differential checks take a seeded sample.
        let all = FOLDRANGE_ALL.load(std::sync::atomic::Ordering::Relaxed);
        let n = if all { related.len() * 8 } else { cfg.scaled(if cfg.quick() { 240 } else { 6000 }) };
        for k in 0..n {
            idx += 1;
            let (c, d, e) = if all { (related[k / 8], (k % 8 / 2) as u32, (k % 2) as u32) } else { (*rng.pick(&related), rng.range(0, 4) as u32, rng.range(0, 3) as u32) };
            let lo = c - d;
            let hi = c + e;
            let (Some(lc), Some(hc)) = (char::from_u32(lo), char::from_u32(hi)) else { continue };
            let neg = rng.chance(1, 4);
            let fl4 = ["iu", "i", "iv", "iu"];
            let flags = Flags::from_str(if all { fl4[(d as usize + cfg.seed as usize) % 4] } else { *rng.pick(&fl4) });
            let pat = format!("[{}{}-{}]", if neg { "^" } else { "" }, lc, hc);
            let mut mentioned = gen::partners(c);
            mentioned.retain(|&x| x != c);
            mentioned.insert(0, c);
            mentioned.truncate(4);
            mentioned.push(lo);
            mentioned.push(hi);
            let p = Program { idx, pattern: engine::to_cps(&pat), flags, mentioned, source: "foldrange" };
            run_one(p, rep);
        }
    }
}

fn mentioned_guess(pat: &str) -> Vec<u32> {
    let mut v: Vec<u32> = pat.chars().filter(|c| c.is_alphanumeric() || (*c as u32) >= 0x80 || ((*c as u32) < 0x20 && *c != '\n') || *c == '\u{7f}').map(|c| c as u32).collect();
    v.sort_unstable();
    v.dedup();
    v.truncate(4);
    v
}

/// Set by C01: enumerate the case-related class ranges exhaustively (see `programs`, section 4).
pub static FOLDRANGE_ALL: std::sync::atomic::AtomicBool = std::sync::atomic::AtomicBool::new(false);

/// Haystacks for a program: all strings up to a length bound over its relevant alphabet, plus
/// random longer ones with varied alignment.
pub fn haystacks(p: &Program, rng: &mut Rng, budget: usize, n_long: usize, ascii_only: bool) -> Vec<String> {
    if p.source == "foldref" {
        let mut v = foldref_haystacks(&p.pattern_lossy());
        if ascii_only {
            v.retain(|s| s.is_ascii());
        }
        return v;
    }
    if p.source == "template" {
        let mut v = template_haystacks();
        // the haystacks built around the longest literal the pattern contains come first (checks
        // that truncate the list keep the relevant ones)
        let pat = p.pattern_lossy();
        let mut lits: Vec<&str> = TEMPLATE_HAY_LITS.iter().copied().filter(|l| pat.contains(l)).collect();
        lits.sort_by_key(|l| std::cmp::Reverse(l.len()));
        if let Some(best) = lits.first() {
            // (ignoring case, shortest first: "ab!" and "AB!" both come early)
            let best = best.to_lowercase();
            v.sort_by_key(|h: &String| (if h.to_lowercase().contains(&best) { 0 } else { 1 }, h.len()));
        }
        if ascii_only {
            v.retain(|s| s.is_ascii());
        }
        return v;
    }
    let mut alpha = gen::relevant_alphabet(&p.mentioned, 5, p.flags.i);
    if ascii_only {
        alpha.retain(|&c| c < 128);
        if alpha.is_empty() {
            alpha = vec!['a' as u32, 'x' as u32];
        }
    }
    let l = gen::max_len_for(alpha.len(), budget);
    let mut v = gen::all_strings(&alpha, l);
    // longer random strings (to cross the 16-byte literal chunking and exercise the prefilters)
    let mut wide = gen::relevant_alphabet(&p.mentioned, 12, true);
    if ascii_only {
        wide.retain(|&c| c < 128);
        if wide.is_empty() {
            wide = vec!['a' as u32];
        }
    }
    // long runs of one character (counted loops with minima above the unroll threshold need them)
    if n_long > 0 {
        let chars: Vec<char> = alpha.iter().filter_map(|&c| char::from_u32(c)).collect();
        for (i, &c) in chars.iter().take(3).enumerate() {
            let other = chars[(i + 1) % chars.len()];
            for n in [7usize, 10] {
                let run: String = std::iter::repeat(c).take(n).collect();
                v.push(run.clone());
                v.push(format!("{}{}", run, other));
                v.push(format!("{}{}", other, run));
            }
        }
    }
    // far haystacks: a short haystack behind a long run of filler the pattern does not mention, so
    // that scanning (prefilters work in 4/8/16-byte steps), position arithmetic and offsets are
    // exercised away from the start of the input; rarely behind more than 64 KiB
    if n_long > 0 && !v.is_empty() {
        const LADDER: [usize; 18] = [7, 8, 9, 15, 16, 17, 31, 32, 33, 63, 64, 65, 127, 128, 129, 255, 256, 257];
        const KILO: [usize; 4] = [1023, 1024, 4095, 4097];
        const HUGE: [usize; 4] = [65_535, 65_536, 65_537, 70_001];
        for k in 0..2 {
            let base = v[rng.below(v.len().min(400))].clone();
            let n = if k == 1 && rng.chance(1, HUGE_ONE_IN.load(std::sync::atomic::Ordering::Relaxed)) { *rng.pick(&HUGE) } else if k == 1 && rng.chance(1, 8) { *rng.pick(&KILO) } else { *rng.pick(&LADDER) };
            let candidates: &[char] = if ascii_only { &['#', '~', '%'] } else { &['#', '~', 'ő', '\u{3042}'] };
            let filler = candidates.iter().copied().find(|c| !p.pattern.contains(&(*c as u32))).unwrap_or('#');
            let mut s = String::with_capacity(n * filler.len_utf8() + base.len());
            for _ in 0..n {
                s.push(filler);
            }
            s.push_str(&base);
            v.push(s);
        }
    }
    for k in 0..n_long {
        let len = [6usize, 9, 17, 24, 33, 48, 64][k % 7];
        let mut s = String::new();
        // random alignment prefix
        for _ in 0..rng.below(4) {
            s.push('x');
        }
        s.push_str(&gen::random_string(rng, &wide, len));
        v.push(s);
    }
    v
}

pub fn show_opt(m: &Option<EMatch>) -> String {
    match m {
        Some(m) => m.show(),
        None => "no match".into(),
    }
}

/// One program in this many gets a haystack behind more than 64 KiB of filler (the runner lowers
/// it for the thorough tier).
pub static HUGE_ONE_IN: std::sync::atomic::AtomicUsize = std::sync::atomic::AtomicUsize::new(3000);

/// Start offsets for long haystacks are thinned: the first few, evenly spaced ones, and the last
/// 48 (the region of a far haystack where the short haystack sits, plus the beyond-the-end starts).
pub fn thin_starts(starts: Vec<usize>) -> Vec<usize> {
    if starts.len() <= 120 {
        return starts;
    }
    let n = starts.len();
    let mut keep: Vec<usize> = Vec::new();
    keep.extend_from_slice(&starts[..3]);
    let (spaced, tail) = if n > 20_000 { (2, 8) } else if n > 600 { (3, 20) } else { (8, 48) };
    for k in 1..spaced {
        keep.push(starts[k * n / spaced]);
    }
    keep.extend_from_slice(&starts[n - tail..]);
    keep.sort_unstable();
    keep.dedup();
    keep
}

/// Patterns with numbers at every width at which a parser could truncate, saturate or overflow:
/// hex escapes, decimal escapes / backreferences, and (for completeness) counts.
pub fn integer_width_patterns() -> Vec<String> {
    let hex = ["FFFF", "10000", "10FFFF", "110000", "7FFFFFFF", "80000000", "FFFFFFFF", "100000000", "100000041", "FFFFFFFFF", "7FFFFFFFFFFFFFFF", "FFFFFFFFFFFFFFFF", "10000000000000000", "10000000000000041", "0000000000000000000041", "00000000000000000000000000000000000000041"];
    let dec = ["1", "2", "9", "10", "65535", "65536", "2147483648", "4294967295", "4294967296", "4294967297", "4294967298", "18446744073709551615", "18446744073709551616", "18446744073709551617", "340282366920938463463374607431768211457"];
    let mut v = Vec::new();
    for h in hex {
        for t in ["\\u{H}", "[\\u{H}]", "[a-\\u{H}]", "[\\u{H}-\\u{H}]", "(?<\\u{H}>x)", "(?<a\\u{H}>x)", "\\k<\\u{H}>(?<a>x)", "\\u{H}+?"] {
            v.push(t.replace("H", h));
        }
    }
    for d in dec {
        for t in ["(a)\\D", "\\D(a)", "(a)(b)\\D", "[\\D]", "(?<n>a)\\k<n>\\D", "(a)\\D{2}", "(?<=(a)\\D)b", "(a){D}\\1", "\\0D"] {
            v.push(t.replace("D", d));
        }
    }
    v
}

/// Every arrangement of up to three capture groups (unnamed / named) in one concatenation, placed
/// in contexts that are emitted in the other direction or evaluated separately.
pub fn group_arrangement_patterns() -> Vec<String> {
    let groups = ["(a)", "(?<n>a)", "(?<m>b)", "(?:c)"];
    let mut seqs: Vec<String> = Vec::new();
    for a in groups {
        seqs.push(a.to_string());
        for b in groups {
            seqs.push(format!("{}{}", a, b));
            for c in groups {
                seqs.push(format!("{}{}{}", a, b, c));
            }
        }
    }
    let mut v = Vec::new();
    for s in &seqs {
        // a name may be declared once per alternative only
        if s.matches("(?<n>").count() > 1 || s.matches("(?<m>").count() > 1 {
            continue;
        }
        for ctx in ["{}", "(?<={})c", "(?<!{})c", "(?={})a", "(?<=x(?<={}))", "(?<=(?={})a)", "(?:{})+", "(?<={}|x)c", "(?<=({}))\\1"] {
            v.push(ctx.replace("{}", s));
        }
    }
    v
}
