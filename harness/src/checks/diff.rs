//! Differential monitors that need no reference model:
//!  C02 backtracking vs PikeVM, C03 optimized vs unoptimized, C04 prefilter vs none,
//!  C13 ASCII vs UTF-8 entry points.
//! Every match that flows through here also goes through the C06 range monitor.

use super::common::*;
use super::framework::*;
use crate::engine::{self, Api, EMatch, Guarded};
use crate::esref::Flags;
use crate::gen::GenCfg;
use crate::report::{Cfg, Report};
use crate::rng::Rng;

const FUEL: u64 = 3_000_000;

fn describe(g: &Guarded<Vec<EMatch>>) -> String {
    match g {
        Guarded::Ok(v) => engine::show_matches(v),
        Guarded::Panic(m) => format!("PANIC({})", m),
        Guarded::Fuel => "FUEL-EXHAUSTED".into(),
    }
}

/// C06 range monitor over a whole sequence.
fn ranges_ok(hay: &str, ms: &Guarded<Vec<EMatch>>, rep: &mut Option<&mut Report>) -> Result<(), String> {
    if let Guarded::Ok(v) = ms {
        for m in v {
            if let Some(r) = rep.as_deref_mut() {
                r.inc("ranges_checked");
            }
            engine::check_ranges(hay, m)?;
        }
    }
    Ok(())
}

fn stream_spec(cfg: &Cfg, n_quick: usize, n_thorough: usize, enum_quick: usize, enum_thorough: usize, tweak: fn(&mut GenCfg, &mut Rng)) -> StreamSpec {
    let fl = |s: &str| Flags::from_str(s);
    StreamSpec {
        n_struct: cfg.scaled(if cfg.quick() { n_quick } else { n_thorough }),
        enum_nodes: if cfg.quick() { enum_quick } else { enum_thorough },
        enum_flags: vec![fl(""), fl("i"), fl("u"), fl("mv")],
        tweak,
        fixed: fixed_corpus(),
        templates: true,
    }
}

fn compile_or_skip(pat: &[u32], flags: Flags, no_opt: bool) -> Prep<regress::Regex> {
    match engine::compile(pat, flags, no_opt) {
        Guarded::Ok(Ok(re)) => Prep::Ready(re),
        Guarded::Ok(Err(_)) => Prep::Skip("compile_rejected"),
        other => Prep::Violated { property: "C07", what: "compile did not return Ok or Err".into(), observed: other.describe_short(), expected: "Ok or Err".into() },
    }
}

/// Compare two sequences.
fn compare(property: &'static str, what: &str, hay: &str, name_a: &str, a: &Guarded<Vec<EMatch>>, name_b: &str, b: &Guarded<Vec<EMatch>>, rep: &mut Option<&mut Report>) -> Option<Verdict> {
    for (n, x) in [(name_a, a), (name_b, b)] {
        if let Err(e) = ranges_ok(hay, x, rep) {
            return Some(Verdict::Violated { property: "C06", what: format!("invalid range reported by {}", n), observed: e, expected: "0 <= start <= end <= len on char boundaries".into() });
        }
        if let Guarded::Panic(m) = x {
            return Some(Verdict::Violated { property: "C06", what: format!("{} panicked", n), observed: m.clone(), expected: "no panic".into() });
        }
    }
    if a == b {
        return None;
    }
    // Fuel exhaustion is decided by C05, not here.
    if matches!(a, Guarded::Fuel) || matches!(b, Guarded::Fuel) {
        return Some(Verdict::Inconclusive("fuel"));
    }
    Some(Verdict::Violated { property, what: what.to_string(), observed: format!("{}: {} | {}: {}", name_a, describe(a), name_b, describe(b)), expected: "identical match sequences".into() })
}

fn nontrivial(a: &Guarded<Vec<EMatch>>) -> bool {
    matches!(a, Guarded::Ok(v) if !v.is_empty())
}

/// Patterns read out of the code paths that matter (literal chunking, fold sets, unrolling,
/// lookbehind re-reversal, string sets, anchors) so that every run exercises them.
pub fn fixed_corpus() -> Vec<(String, crate::esref::Flags)> {
    let f = |s: &str| crate::esref::Flags::from_str(s);
    let mut v: Vec<(String, crate::esref::Flags)> = Vec::new();
    let pats: &[(&str, &str)] = &[
        ("abcdefghijklmnopqrstuvwxyz0123456789", ""),
        ("(?<=abcdefghijklmnopqrstuvwxyz)x", ""),
        ("(?<=abcdefghijklmnopq)(?<!zbcdefghijklmnopq)x", ""),
        ("k", "i"),
        ("k", "iu"),
        ("[k]", "i"),
        ("s+", "iu"),
        ("(a{1,2}?\\1?)c", ""),
        ("(?:(?:a?){1}){2}b", ""),
        ("(?:(?:.+){1}){2,3}?", ""),
        ("(?:a|ab)(?:c|bcd)(?:d*)", ""),
        ("(a*)*b", ""),
        ("(a*)+?b", ""),
        ("(?:a{2}){2,3}b", ""),
        ("(?:ab){3}c", ""),
        ("^a|^b", ""),
        ("^a|b", "m"),
        ("(?m:^)a|^b", ""),
        ("(?=a)ab|(?!a)b", ""),
        ("(?<=(\\d+)(\\d+))$", ""),
        ("(?<=\\1(a))b", ""),
        ("(?<!(a)\\1)b", ""),
        ("\\bfoo\\b|\\Bbar", ""),
        ("[^a]b|c[^\\n]", ""),
        ("[\\q{ab|a|}]x", "v"),
        ("(?<=[\\q{ab}])x", "v"),
        ("(?<=[\\q{ab}])x", "iv"),
        ("[a&&[ab]]|[a-c--b]", "v"),
        ("\\p{Lu}\\P{Lu}", "u"),
        ("(?<a>x)|(?<a>y)\\k<a>", ""),
        ("(?i:a)b|(?-i:a)B", "i"),
        (".*?a|.+b", "s"),
        ("é|ü+|\u{10000}*x", ""),
        ("[\u{10000}-\u{10FFFF}]+|[\u{80}-\u{7FF}]", ""),
        ("(?:)|a", ""),
        ("a{0}b|(?:){2,}c", ""),
        ("[]|[^]", ""),
        ("x*", ""),
        ("", ""),
        // classes that are "everything but one code point" / "one end of the code space"
        ("[^\u{1}-\u{10FFFF}]", ""), ("[^\u{0}-\u{10FFFE}]", "u"), ("a[^\u{1}-\u{10FFFF}]b", "i"), ("(?:[^\u{1}-\u{10FFFF}]|\u{10FFFF})+", "v"), ("[^\u{1}-\u{10FFFF}]*\u{10FFFF}", "iu"), ("(?<=[^\u{0}-\u{10FFFE}])[^\u{1}-\u{10FFFF}]", ""), ("[\u{0}-\u{10FFFF}]", ""), ("[^\u{0}-\u{10FFFF}]|\u{0}", "u"),
        // capture groups next to never-matching atoms (the optimizer must not drop group slots)
        ("(?!(a))[]|b(c)", ""),
        ("(?:[](?<!(x))|é)\\1é", ""),
        ("(?:(a)[])?b(c)\\2", ""),
        ("(a)[]|(b)", ""),
        ("(?=(a)[])|(b)\\2", ""),
        ("(?<!(a)[^])|(b)\\2", "s"),
        ("^\\d{6,8}?$", ""),
        ("(a{6,7}?)b", ""),
        ("x*?y{6,}", ""),
        ("^\\d{1,3}?(\\d{0,2})$", ""),
        ("(?<=a{6,7}?)b", ""),
        ("[ab]{6,8}c", "i"),
        ("(?:ab){6,7}?c", ""),
    ];
    for (p, fl) in pats {
        v.push((p.to_string(), f(fl)));
    }
    v
}

/// Enumerated first-position shapes: what a pattern starts with decides the start predicate
/// (anchored shortcut, literal prefix, byte sets, nothing).
pub fn first_position_shapes() -> Vec<(String, Flags)> {
    let heads = ["^", "(?:^)", "(^)", "(?=^)", "(?<=^)", "(?:^a)", "(^a)", "(?:^|a)", "(?:^a|^b)", "(?:^a|b)", "(?:a|^b)", "\\b", "", "(?:)", "a", "[ab]", ".", "(?!a)", "(?<!a)", "ab", "(?:ab|ac)", "(?:ab|cd)", "(?:k|s)", "é", "[^a]", "\\1", "(a)?", "(?:a|)"];
    let quants = ["", "?", "*", "+", "{0}", "{1}", "{2}", "??", "*?", "{0,1}"];
    let tails = ["a", "b", "[ab]", "", "$", "(b)"];
    let mut v = Vec::new();
    for h in heads {
        for q in quants {
            // ^ $ \b and lookbehinds cannot be quantified directly: wrap them
            let quantified = if q.is_empty() {
                h.to_string()
            } else if h.is_empty() {
                continue;
            } else {
                format!("(?:{}){}", h, q)
            };
            for t in tails {
                for fl in ["", "m", "iu"] {
                    v.push((format!("{}{}", quantified, t), Flags::from_str(fl)));
                }
            }
        }
    }
    v
}

fn tweak_undo(g: &mut GenCfg, rng: &mut Rng) {
    // stress the undo log: groups in loops in alternations in lookarounds, backreferences
    g.max_depth = rng.range(3, 5);
    g.long_literals = rng.chance(1, 4);
    g.big_counts = rng.chance(1, 2);
}

fn tweak_opt(g: &mut GenCfg, rng: &mut Rng) {
    g.long_literals = true;
    g.big_counts = rng.chance(1, 2);
}

fn tweak_first(g: &mut GenCfg, rng: &mut Rng) {
    g.long_literals = rng.chance(1, 2);
    g.max_depth = rng.range(1, 3);
}

fn tweak_ascii(g: &mut GenCfg, rng: &mut Rng) {
    // pattern alphabets deliberately contain non-ASCII characters and ASCII's non-ASCII partners
    let mut a: Vec<u32> = "aksKS\n_1[{^~@`]}".chars().map(|c| c as u32).collect();
    let extra = [0x17F, 0x212A, 0x130, 0x131, 0xE9, 0x10000, 0xB5];
    for _ in 0..rng.range(0, 2) {
        a.push(*rng.pick(&extra));
    }
    rng.shuffle(&mut a);
    a.truncate(rng.range(2, 5));
    g.alphabet = a;
    g.anchors = true;
}


// ------------------------------------------------------------------------------------------

pub struct C02;
impl PCheck for C02 {
    type Prepared = regress::Regex;
    fn name(&self) -> &'static str {
        "c02"
    }
    fn prepare(&self, pat: &[u32], flags: Flags, _rep: Option<&mut Report>) -> Prep<regress::Regex> {
        compile_or_skip(pat, flags, false)
    }
    fn case(&self, re: &regress::Regex, hay: &str, start: usize, mut rep: Option<&mut Report>) -> Verdict {
        let a = engine::find_all(re, hay, start, Api::Utf8, FUEL);
        let b = engine::find_all(re, hay, start, Api::Pike, FUEL);
        if let Some(v) = compare("C02", "backtracking and PikeVM executors disagree (UTF-8)", hay, "backtrack", &a, "pikevm", &b, &mut rep) {
            return v;
        }
        if hay.is_ascii() {
            let c = engine::find_all(re, hay, start, Api::Ascii, FUEL);
            let d = engine::find_all(re, hay, start, Api::PikeAscii, FUEL);
            if let Some(r) = rep.as_deref_mut() {
                r.inc("ascii_pairs");
            }
            if let Some(v) = compare("C02", "backtracking and PikeVM executors disagree (ASCII mode)", hay, "backtrack-ascii", &c, "pikevm-ascii", &d, &mut rep) {
                return v;
            }
        }
        Verdict::Held { nontrivial: nontrivial(&a) }
    }
}

pub fn run_c02(cfg: &Cfg, rep: &mut Report) {
    let spec = stream_spec(cfg, 12_000, 400_000, 3, 4, tweak_undo);
    let opts = DriveOpts { budget: if cfg.quick() { 150 } else { 400 }, n_long: 3, n_plant: 2, ascii_only: false, sample_every: 499 };
    drive(&C02, cfg, rep, &spec, &opts);
}

pub struct C03;
impl PCheck for C03 {
    type Prepared = (regress::Regex, regress::Regex);
    fn name(&self) -> &'static str {
        "c03"
    }
    fn prepare(&self, pat: &[u32], flags: Flags, rep: Option<&mut Report>) -> Prep<Self::Prepared> {
        let flags = Flags { n: false, ..flags };
        let a = engine::compile(pat, flags, false);
        let b = engine::compile(pat, flags, true);
        let (ra, rb) = match (a, b) {
            (Guarded::Ok(a), Guarded::Ok(b)) => (a, b),
            (a, b) => {
                return Prep::Violated { property: "C07", what: "compile did not return Ok or Err".into(), observed: format!("opt: {} no_opt: {}", a.describe_short(), b.describe_short()), expected: "Ok or Err".into() }
            }
        };
        let (ra, rb) = match (ra, rb) {
            (Ok(a), Ok(b)) => (a, b),
            (Err(_), Err(_)) => return Prep::Skip("compile_rejected"),
            (a, b) => {
                return Prep::Violated {
                    property: "C03",
                    what: "optimizer changes whether the pattern compiles".into(),
                    observed: format!("opt: {} no_opt: {}", a.as_ref().map(|_| "Ok").unwrap_or("Err"), b.as_ref().map(|_| "Ok").unwrap_or("Err")),
                    expected: "both compile or both fail".into(),
                }
            }
        };
        // observe which rewrites fired: compare the instruction kinds of the two programs
        #[cfg(feature = "hooks")]
        if let Some(rep) = rep {
            let ka = engine::hooks::insn_kinds(&ra);
            let kb = engine::hooks::insn_kinds(&rb);
            if ka != kb {
                rep.inc("rewrites.program_changed");
            }
            let has = |k: &[&str], n: &str| k.iter().any(|x| *x == n);
            for (name, kind) in [
                ("rewrites.byteseq_formed", "ByteSeq1to4"),
                ("rewrites.byteseq_long_formed", "ByteSeq5to16"),
                ("rewrites.loop1char_formed", "Loop1CharBody"),
                ("rewrites.byteset_formed", "ByteSet2"),
                ("rewrites.charset_formed", "CharSet"),
            ] {
                if has(&ka, kind) && !has(&kb, kind) {
                    rep.inc(name);
                }
            }
            let count = |k: &[&str], n: &str| k.iter().filter(|x| **x == n).count();
            if count(&ka, "EnterLoop") < count(&kb, "EnterLoop") && !has(&ka, "Loop1CharBody") {
                rep.inc("rewrites.loop_removed_or_unrolled_away");
            }
            if ka.len() > kb.len() {
                rep.inc("rewrites.unrolled_or_grew");
            }
            if count(&ka, "ByteSeq5to16") >= 2 {
                rep.inc("rewrites.literal_chunked");
            }
            if has(&ka, "JustFail") && !has(&kb, "JustFail") {
                rep.inc("rewrites.early_fail");
            }
            if (has(&ka, "ByteSeq1to4") || has(&ka, "ByteSeq5to16")) && (has(&ka, "Lookbehind") || has(&ka, "NegLookbehind")) {
                rep.inc("rewrites.literal_in_program_with_lookbehind");
            }
            if count(&ka, "Bracket") + count(&ka, "AsciiBracket") < count(&kb, "Bracket") + count(&kb, "AsciiBracket") {
                rep.inc("rewrites.bracket_simplified");
            }
        }
        #[cfg(not(feature = "hooks"))]
        let _ = rep;
        Prep::Ready((ra, rb))
    }
    fn case(&self, prep: &Self::Prepared, hay: &str, start: usize, mut rep: Option<&mut Report>) -> Verdict {
        let a = engine::find_all(&prep.0, hay, start, Api::Utf8, FUEL);
        let b = engine::find_all(&prep.1, hay, start, Api::Utf8, FUEL);
        if let Some(v) = compare("C03", "optimized and unoptimized regexes disagree", hay, "opt", &a, "no_opt", &b, &mut rep) {
            return v;
        }
        Verdict::Held { nontrivial: nontrivial(&a) }
    }
}

pub fn run_c03(cfg: &Cfg, rep: &mut Report) {
    let spec = stream_spec(cfg, 12_000, 400_000, 3, 4, tweak_opt);
    let opts = DriveOpts { budget: if cfg.quick() { 150 } else { 400 }, n_long: 3, n_plant: 3, ascii_only: false, sample_every: 499 };
    drive(&C03, cfg, rep, &spec, &opts);
}

pub struct C04;
pub struct C04Prep {
    re: regress::Regex,
    arb: regress::Regex,
    kind: &'static str,
    matched: std::cell::Cell<bool>,
    unmatched: std::cell::Cell<bool>,
}
impl PCheck for C04 {
    type Prepared = C04Prep;
    fn name(&self) -> &'static str {
        "c04"
    }
    fn prepare(&self, pat: &[u32], flags: Flags, rep: Option<&mut Report>) -> Prep<C04Prep> {
        let re = match compile_or_skip(pat, flags, false) {
            Prep::Ready(re) => re,
            Prep::Skip(w) => return Prep::Skip(w),
            Prep::Violated { property, what, observed, expected } => return Prep::Violated { property, what, observed, expected },
        };
        #[cfg(feature = "hooks")]
        let (kind, arb) = (engine::hooks::start_pred_kind(&re), engine::hooks::with_arbitrary_start_pred(&re));
        #[cfg(not(feature = "hooks"))]
        let (kind, arb) = ("unknown", re.clone());
        if let Some(rep) = rep {
            rep.inc(&format!("predicate.{}", kind));
        }
        Prep::Ready(C04Prep { re, arb, kind, matched: Default::default(), unmatched: Default::default() })
    }
    fn case(&self, p: &C04Prep, hay: &str, start: usize, mut rep: Option<&mut Report>) -> Verdict {
        let a = engine::find_all(&p.re, hay, start, Api::Utf8, FUEL);
        let b = engine::find_all(&p.arb, hay, start, Api::Utf8, FUEL);
        if let Some(v) = compare("C04", &format!("prefilter ({}) changes the outcome", p.kind), hay, "with-predicate", &a, "arbitrary", &b, &mut rep) {
            return v;
        }
        if nontrivial(&b) {
            p.matched.set(true)
        } else {
            p.unmatched.set(true)
        }
        Verdict::Held { nontrivial: p.kind != "Arbitrary" && nontrivial(&b) }
    }
    fn after_program(&self, p: &C04Prep, _prog: &Program, rep: &mut Report) {
        if p.matched.get() {
            rep.inc(&format!("predicate_matched.{}", p.kind));
        }
        if p.unmatched.get() {
            rep.inc(&format!("predicate_unmatched.{}", p.kind));
        }
    }
}

pub fn run_c04(cfg: &Cfg, rep: &mut Report) {
    let mut spec = stream_spec(cfg, 15_000, 400_000, 3, 4, tweak_first);
    let shapes = first_position_shapes();
    rep.add("first_position_shapes", shapes.len() as u64);
    spec.fixed.extend(shapes);
    let opts = DriveOpts { budget: if cfg.quick() { 150 } else { 400 }, n_long: 6, n_plant: 4, ascii_only: false, sample_every: 299 };
    drive(&C04, cfg, rep, &spec, &opts);
}

pub struct C13;
impl PCheck for C13 {
    type Prepared = (regress::Regex, bool);
    fn name(&self) -> &'static str {
        "c13"
    }
    fn prepare(&self, pat: &[u32], flags: Flags, rep: Option<&mut Report>) -> Prep<Self::Prepared> {
        let nonascii = pat.iter().any(|&c| c >= 128);
        match compile_or_skip(pat, flags, false) {
            Prep::Ready(re) => {
                if let (Some(rep), true) = (rep, nonascii) {
                    rep.inc("programs_mentioning_nonascii");
                }
                Prep::Ready((re, nonascii))
            }
            Prep::Skip(w) => Prep::Skip(w),
            Prep::Violated { property, what, observed, expected } => Prep::Violated { property, what, observed, expected },
        }
    }
    fn starts(&self, hay: &str) -> Vec<usize> {
        // every byte offset, and the out-of-range starts both entry points document as "no matches"
        let mut v: Vec<usize> = (0..=hay.len()).collect();
        v.push(hay.len() + 1);
        v.push(usize::MAX);
        v
    }
    fn case(&self, p: &Self::Prepared, hay: &str, start: usize, mut rep: Option<&mut Report>) -> Verdict {
        if !hay.is_ascii() {
            return Verdict::Inconclusive("non_ascii_haystack");
        }
        let a = engine::find_all(&p.0, hay, start, Api::Ascii, FUEL);
        let b = engine::find_all(&p.0, hay, start, Api::Utf8, FUEL);
        if p.1 {
            if let Some(r) = rep.as_deref_mut() {
                r.inc("pairs_with_nonascii_pattern");
            }
        }
        if let Some(v) = compare("C13", "ASCII and UTF-8 entry points disagree on an ASCII haystack", hay, "ascii", &a, "utf8", &b, &mut rep) {
            return v;
        }
        // find_ascii / find_iter_ascii are find_from_ascii(text, 0)
        if start == 0 {
            let r = engine::guarded(FUEL, || {
                let x: Vec<engine::EMatch> = p.0.find_iter_ascii(hay).take(engine::MAX_MATCHES).map(|m| engine::EMatch::from(&m)).collect();
                let y = p.0.find_ascii(hay).map(|m| engine::EMatch::from(&m));
                (x, y)
            });
            if let (Guarded::Ok((x, y)), Guarded::Ok(a)) = (r, &a) {
                if let Some(r) = rep.as_deref_mut() {
                    r.inc("find_ascii_wrapper_comparisons");
                }
                if &x != a || y.as_ref() != a.first() {
                    return Verdict::Violated { property: "C13", what: "find_iter_ascii / find_ascii differ from find_from_ascii(text, 0)".into(), observed: format!("find_iter_ascii: {} | find_ascii: {:?}", engine::show_matches(&x), y.map(|m| m.show())), expected: format!("find_from_ascii(0): {}", engine::show_matches(a)) };
                }
            }
        }
        Verdict::Held { nontrivial: nontrivial(&b) }
    }
}

pub fn run_c13(cfg: &Cfg, rep: &mut Report) {
    let mut spec = stream_spec(cfg, 15_000, 400_000, 3, 4, tweak_ascii);
    // every ASCII letter, digit and bit-5 punctuation pair through the match-time fold (the ASCII
    // entry points have a fold of their own): backreferences forwards and in a lookbehind
    for c in (b'!'..=b'~').map(|b| b as char) {
        let lit = if c.is_ascii_alphanumeric() { c.to_string() } else if c == '-' { "-".to_string() } else { format!("\\{}", c) };
        for fl in ["i", "iu", "iv"] {
            // (identity escapes of non-syntax punctuation are invalid under u/v: those simply do not compile)
            spec.fixed.push((format!("({})\\1", lit), Flags::from_str(fl)));
            spec.fixed.push((format!("(?<=({}))\\1", lit), Flags::from_str(fl)));
        }
    }
    let opts = DriveOpts { budget: if cfg.quick() { 200 } else { 500 }, n_long: 4, n_plant: 3, ascii_only: true, sample_every: 299 };
    drive(&C13, cfg, rep, &spec, &opts);
}
