//! C18: escape(s) is a pattern that matches exactly the literal s.

use super::common::*;
use crate::engine::{self, Guarded};
use crate::esref::Flags;
use crate::json::J;
use crate::report::{Cfg, Report};
use crate::rng::{fnv64, Rng};
use crate::uniref::case_data;

const FUEL: u64 = 5_000_000;

fn unescape(e: &str) -> Option<String> {
    // escape may only insert backslashes: every backslash is followed by the escaped character
    let mut out = String::new();
    let mut it = e.chars();
    while let Some(c) = it.next() {
        if c == '\\' {
            out.push(it.next()?);
        } else {
            out.push(c);
        }
    }
    Some(out)
}

/// Occurrences of s in t with the advance rule of find_iter (non-overlapping; empty s matches at
/// every char boundary). `eq` compares characters.
fn occurrences(s: &[char], t: &str, eq: &dyn Fn(char, char) -> bool) -> Vec<(usize, usize)> {
    let tc: Vec<(usize, char)> = t.char_indices().collect();
    let n = tc.len();
    let byte = |k: usize| if k < n { tc[k].0 } else { t.len() };
    let mut out = Vec::new();
    let mut k = 0;
    while k <= n {
        if k + s.len() <= n && (0..s.len()).all(|j| eq(s[j], tc[k + j].1)) {
            out.push((byte(k), byte(k + s.len())));
            k += s.len().max(1);
        } else {
            k += 1;
        }
    }
    out
}

pub fn run(cfg: &Cfg, rep: &mut Report) {
    let alphabet: Vec<char> = "\\^$.|?*+()[]{}-/&,aksiKé\n\u{2028}\u{10000}!#~:<=>@`%;".chars().collect();
    let mut strings: Vec<String> = vec![String::new()];
    let maxlen = if cfg.quick() { 2 } else { 3 };
    let _ = maxlen;
    let mut frontier = vec![String::new()];
    for _ in 0..maxlen {
        let mut next = Vec::new();
        for s in &frontier {
            for c in &alphabet {
                let mut t = s.clone();
                t.push(*c);
                next.push(t);
            }
        }
        strings.extend(next.iter().cloned());
        frontier = next;
    }
    let mut rng = Rng::new(cfg.seed ^ 0x18);
    for _ in 0..cfg.scaled(if cfg.quick() { 40_000 } else { 1_000_000 }) {
        let len = rng.range(3, 12);
        let mut s = String::new();
        for _ in 0..len {
            s.push(*rng.pick(&alphabet));
        }
        strings.push(s);
    }
    rep.add("strings", strings.len() as u64);
    rep.max("exhaustive_up_to_length", maxlen as u64);
    let all_flags = Flags::all();
    let filler: Vec<char> = "ax.k\n ".chars().collect();
    for (si, s) in strings.iter().enumerate() {
        let h = fnv64(s.as_bytes());
        if !cfg.mine(h) {
            continue;
        }
        if let Some(r) = cfg.resume_after {
            if (si as u64) < r {
                continue;
            }
        }
        if si % 256 == 0 {
            rep.begin(si as u64 + 1, &J::obj().set("s", s.as_str()));
        }
        let esc = regress::escape(s);
        let case = |flags: &str, t: &str| J::obj().set("s", s.as_str()).set("escaped", esc.as_str()).set("flags", flags).set("haystack", t).set("check", "c18");
        if unescape(&esc).as_deref() != Some(s.as_str()) {
            rep.violation(violation("C18", "escape changed characters other than by prefixing a backslash", case("", ""), esc.clone(), s.clone()));
            continue;
        }
        // haystacks: s planted in filler text, with case variants
        let sc: Vec<char> = s.chars().collect();
        let mut hays: Vec<String> = Vec::new();
        let mut prng = Rng::new(h ^ cfg.seed);
        for v in 0..6 {
            let mut t = String::new();
            for _ in 0..prng.range(0, 3) {
                t.push(*prng.pick(&filler));
            }
            for &c in &sc {
                // variants 3..: a member of the character's folding neighbourhood in either relation
                // (K / KELVIN SIGN, s / LONG S, i / dotless and dotted I, ...), equivalent or not
                let c2 = match v {
                    1 => c.to_uppercase().next().unwrap_or(c),
                    2 => c.to_lowercase().next().unwrap_or(c),
                    0 => c,
                    _ => {
                        let ps = crate::gen::partners(c as u32);
                        char::from_u32(*prng.pick(&ps)).unwrap_or(c)
                    }
                };
                t.push(c2);
            }
            for _ in 0..prng.range(0, 2) {
                t.push(*prng.pick(&filler));
            }
            t.push_str(s);
            hays.push(t);
        }
        // near misses: s with one character replaced by something an implementation shortcut could
        // confuse it with (NUL / DEL padding, bit 5, the low byte of its code point, its neighbours)
        for j in 0..sc.len().min(3) {
            let c = sc[if j == 2 { sc.len() - 1 } else { j }] as u32;
            let pos = if j == 2 { sc.len() - 1 } else { j };
            for alt in [0u32, 0x7F, c ^ 0x20, c & 0xFF, c & 0x7F, c + 1, c.wrapping_sub(1), c ^ 0x10000] {
                let Some(a) = char::from_u32(alt) else { continue };
                if a as u32 == c {
                    continue;
                }
                let mut t = String::from("x");
                for (k, &ch) in sc.iter().enumerate() {
                    t.push(if k == pos { a } else { ch });
                }
                t.push('x');
                hays.push(t);
            }
        }
        hays.push(String::new());
        hays.push(s.repeat(2));
        for fl in &all_flags {
            let fs = fl.to_string();
            let re = match engine::compile(&engine::to_cps(&esc), *fl, false) {
                Guarded::Ok(Ok(re)) => re,
                Guarded::Ok(Err(e)) => {
                    rep.inc("evaluations");
                    rep.violation(violation("C18", "escape(s) does not compile", case(&fs, ""), format!("Err({})", e), "Ok".into()));
                    continue;
                }
                other => {
                    rep.violation(violation("C18", "compile did not return", case(&fs, ""), other.describe_short(), "Ok".into()));
                    continue;
                }
            };
            for t in &hays {
                let got = match engine::find_all(&re, t, 0, engine::Api::Utf8, FUEL) {
                    Guarded::Ok(v) => v.iter().map(|m| m.range).collect::<Vec<_>>(),
                    Guarded::Fuel => {
                        rep.inconclusive("fuel");
                        continue;
                    }
                    Guarded::Panic(m) => {
                        rep.violation(violation("C18", "search panicked", case(&fs, t), m, "no panic".into()));
                        continue;
                    }
                };
                let unicode = fl.unicode_mode();
                let expected = if fl.i {
                    occurrences(&sc, t, &|a, b| case_data().equivalent(a as u32, b as u32, unicode))
                } else {
                    occurrences(&sc, t, &|a, b| a == b)
                };
                let hh = fnv64(format!("{}|{}|{}", s, fs, t).as_bytes());
                rep.eval(hh, !expected.is_empty() && !s.is_empty());
                if fl.i {
                    rep.inc("case_insensitive_cases");
                }
                if got != expected {
                    rep.violation(violation("C18", "matches of escape(s) differ from the occurrences of the literal s", case(&fs, t), format!("{:?}", got), format!("{:?}", expected)));
                }
            }
        }
        if rep.samples.len() < rep.max_samples && si % 1013 == 7 {
            rep.sample(J::obj().set("s", s.as_str()).set("escaped", esc.as_str()).set("haystacks", hays.len()).set("flag_sets", 24));
        }
    }
    // ---- every case-related code point as a one-character string, searched in a haystack that
    // holds its whole neighbourhood in both relations (one wrong table entry must not hide)
    let cd = case_data();
    let mut related: Vec<u32> = cd.nontrivial(true).iter().chain(cd.nontrivial(false).iter()).collect();
    related.sort_unstable();
    related.dedup();
    for &c in &related {
        if !cfg.mine(c as u64 ^ 0x18) {
            continue;
        }
        let Some(ch) = char::from_u32(c) else { continue };
        if c % 256 == 0 || rep.get("case_related_single_character_strings") == 0 {
            rep.begin(10_000_000 + c as u64, &J::obj().set("s", ch.to_string()));
        }
        rep.inc("case_related_single_character_strings");
        let s = ch.to_string();
        let esc = regress::escape(&s);
        let mut hood: Vec<u32> = cd.class_of(c, true);
        hood.extend(cd.class_of(c, false));
        hood.extend(crate::gen::partners(c));
        hood.sort_unstable();
        hood.dedup();
        let mut t = String::from("-");
        for &x in &hood {
            if let Some(xc) = char::from_u32(x) {
                t.push(xc);
                t.push('-');
            }
        }
        for fs in ["", "i", "iu", "iv", "u"] {
            let fl = Flags::from_str(fs);
            let case = || J::obj().set("s", s.as_str()).set("escaped", esc.as_str()).set("flags", fs).set("haystack", t.as_str()).set("check", "c18");
            let re = match engine::compile(&engine::to_cps(&esc), fl, false) {
                Guarded::Ok(Ok(re)) => re,
                other => {
                    rep.inc("evaluations");
                    rep.violation(violation("C18", "escape(s) does not compile", case(), other.describe_short(), "Ok".into()));
                    continue;
                }
            };
            let got = match engine::find_all(&re, &t, 0, engine::Api::Utf8, FUEL) {
                Guarded::Ok(v) => v.iter().map(|m| m.range).collect::<Vec<_>>(),
                _ => {
                    rep.inconclusive("fuel");
                    continue;
                }
            };
            let unicode = fl.unicode_mode();
            let expected = if fl.i { occurrences(&[ch], &t, &|a, b| cd.equivalent(a as u32, b as u32, unicode)) } else { occurrences(&[ch], &t, &|a, b| a == b) };
            rep.eval(fnv64(format!("single|{}|{}", c, fs).as_bytes()), true);
            if fl.i {
                rep.inc("case_insensitive_cases");
            }
            if got != expected {
                rep.violation(violation("C18", "matches of escape(s) differ from the occurrences of the literal s", case(), format!("{:?}", got), format!("{:?}", expected)));
            }
        }
    }
}

/// Second stage (nightly `pattern` build): escape(s) used as a `std::str::pattern::Pattern`.
/// `str::match_indices`, `split`, `contains`, `find` with the compiled escape(s) must see exactly
/// the occurrences of the literal s (the empty string at every char boundary, including the end).
#[cfg(feature = "pattern")]
pub fn run_pattern(cfg: &Cfg, rep: &mut Report) {
    if cfg.replay.is_some() {
        return;
    }
    let alphabet: Vec<char> = "\\^$.|?*+()[]{}-/aksé\n\u{10000}".chars().collect();
    let mut strings: Vec<String> = vec![String::new()];
    for a in &alphabet {
        strings.push(a.to_string());
        for b in &alphabet {
            strings.push(format!("{}{}", a, b));
        }
    }
    let mut rng = Rng::new(cfg.seed ^ 0x1818);
    for _ in 0..cfg.scaled(if cfg.quick() { 2_000 } else { 60_000 }) {
        let len = rng.range(3, 8);
        let mut s = String::new();
        for _ in 0..len {
            s.push(*rng.pick(&alphabet));
        }
        strings.push(s);
    }
    let filler: Vec<char> = "ax.é\u{10000} ".chars().collect();
    for (si, s) in strings.iter().enumerate() {
        let h = fnv64(s.as_bytes());
        if !cfg.mine(h) {
            continue;
        }
        if si % 256 == 0 {
            rep.begin(si as u64 + 1, &J::obj().set("s", s.as_str()));
        }
        let esc = regress::escape(s);
        let sc: Vec<char> = s.chars().collect();
        let mut prng = Rng::new(h ^ cfg.seed);
        let mut hays: Vec<String> = vec![String::new(), s.clone(), s.repeat(3)];
        for _ in 0..5 {
            let mut t = String::new();
            for _ in 0..prng.range(0, 3) {
                t.push(*prng.pick(&filler));
            }
            t.push_str(s);
            for _ in 0..prng.range(0, 3) {
                t.push(*prng.pick(&filler));
            }
            if prng.chance(1, 2) {
                t.push_str(s);
            }
            hays.push(t);
        }
        for fs in ["", "u", "v", "ms"] {
            let Guarded::Ok(Ok(re)) = engine::compile(&engine::to_cps(&esc), Flags::from_str(fs), false) else { continue };
            for t in &hays {
                let expected = occurrences(&sc, t, &|a, b| a == b);
                let r = engine::guarded(FUEL, || {
                    let mi: Vec<(usize, usize)> = t.match_indices(&re).map(|(i, m)| (i, i + m.len())).collect();
                    let pieces = t.split(&re).count();
                    let has = t.contains(&re);
                    let first = t.find(&re);
                    (mi, pieces, has, first)
                });
                let case = || J::obj().set("s", s.as_str()).set("escaped", esc.as_str()).set("flags", fs).set("haystack", t.as_str()).set("check", "c18pat");
                rep.eval(fnv64(format!("pat|{}|{}|{}", s, fs, t).as_bytes()), !expected.is_empty());
                rep.inc("pattern_trait_cases");
                match r {
                    Guarded::Ok((mi, pieces, has, first)) => {
                        if mi != expected || pieces != expected.len() + 1 || has != !expected.is_empty() || first != expected.first().map(|x| x.0) {
                            rep.violation(violation("C18", "escape(s) used as a str Pattern does not see exactly the occurrences of the literal s", case(), format!("match_indices {:?}, split pieces {}, contains {}, find {:?}", mi, pieces, has, first), format!("occurrences {:?}", expected)));
                        }
                    }
                    Guarded::Fuel => rep.inconclusive("fuel"),
                    Guarded::Panic(m) => rep.violation(violation("C18", "a str method with escape(s) as Pattern panicked", case(), m, "no panic".into())),
                }
            }
        }
    }
}

/// Third stage (utf16 build): escape(s) searched through find_from_utf16 on the UTF-16 encoding
/// of the haystack finds the occurrences of s, offsets translated (including the empty s at every
/// character boundary of text with supplementary characters).
#[cfg(feature = "utf16")]
pub fn run_u16(cfg: &Cfg, rep: &mut Report) {
    if cfg.replay.is_some() {
        return;
    }
    let alphabet: Vec<char> = "\\^$.|?*+()[]{}-/aké\u{10000}\u{1F600}".chars().collect();
    let mut strings: Vec<String> = vec![String::new()];
    for a in &alphabet {
        strings.push(a.to_string());
        for b in &alphabet {
            strings.push(format!("{}{}", a, b));
        }
    }
    let filler: Vec<char> = "ax\u{1F600}é\u{10000} ".chars().collect();
    for (si, s) in strings.iter().enumerate() {
        let h = fnv64(s.as_bytes());
        if !cfg.mine(h) {
            continue;
        }
        if si % 64 == 0 {
            rep.begin(si as u64 + 1, &J::obj().set("s", s.as_str()));
        }
        let esc = regress::escape(s);
        let sc: Vec<char> = s.chars().collect();
        let mut prng = Rng::new(h ^ cfg.seed);
        let mut hays: Vec<String> = vec![String::new(), s.clone(), format!("a\u{1F600}b{}", s), format!("\u{10000}{}\u{10000}", s)];
        for _ in 0..4 {
            let mut t = String::new();
            for _ in 0..prng.range(0, 3) {
                t.push(*prng.pick(&filler));
            }
            t.push_str(s);
            for _ in 0..prng.range(0, 3) {
                t.push(*prng.pick(&filler));
            }
            hays.push(t);
        }
        for fs in ["", "u", "v", "s"] {
            let Guarded::Ok(Ok(re)) = engine::compile(&engine::to_cps(&esc), Flags::from_str(fs), false) else { continue };
            for t in &hays {
                let expected = occurrences(&sc, t, &|a, b| a == b);
                // byte offset -> utf16 offset
                let mut b2u = vec![usize::MAX; t.len() + 1];
                let mut u = 0;
                for (b, ch) in t.char_indices() {
                    b2u[b] = u;
                    u += ch.len_utf16();
                }
                b2u[t.len()] = u;
                let want: Vec<(usize, usize)> = expected.iter().map(|&(a, b)| (b2u[a], b2u[b])).collect();
                let units: Vec<u16> = t.encode_utf16().collect();
                let r = engine::guarded(FUEL, || re.find_from_utf16(&units, 0).take(10_000).map(|m| (m.start(), m.end())).collect::<Vec<_>>());
                rep.eval(fnv64(format!("u16|{}|{}|{}", s, fs, t).as_bytes()), !expected.is_empty());
                rep.inc("utf16_cases");
                match r {
                    Guarded::Ok(got) => {
                        if got != want {
                            rep.violation(violation("C18", "escape(s) searched through find_from_utf16 does not find exactly the occurrences of the literal s", J::obj().set("s", s.as_str()).set("escaped", esc.as_str()).set("flags", fs).set("haystack", t.as_str()).set("check", "c18u16"), format!("{:?}", got), format!("{:?} (UTF-16 offsets)", want)));
                        }
                    }
                    Guarded::Fuel => rep.inconclusive("fuel"),
                    Guarded::Panic(m) => rep.violation(violation("C18", "find_from_utf16 with escape(s) panicked", J::obj().set("s", s.as_str()).set("haystack", t.as_str()).set("check", "c18u16"), m, "no panic".into())),
                }
            }
        }
    }
}
