//! C12: character classes evaluate as sets. Enumerated class expressions (legacy / u brackets and
//! v-mode class sets with union, intersection, subtraction, nesting, \q{} strings), each asked
//! about every member of a fixed universe of characters and short strings; the oracle is the
//! reference model's ClassSet evaluator (via /^E$/).

use super::c01::C01;
use super::common::*;
use super::framework::*;
use crate::esref::{Flags, RefLimits};
use crate::report::{Cfg, Report};
use crate::rng::fnv64;

fn universe() -> Vec<String> {
    let mut v: Vec<String> = Vec::new();
    for c in "abcdkKsSAC-&^09_ \nxyz".chars() {
        v.push(c.to_string());
    }
    for c in [0x212Au32, 0x17F, 0xE9, 0xC9, 0x3BC, 0xB5, 0xDF, 0x1E9E, 0x3C3, 0x3C2, 0x3A3, 0x131, 0x130, 0x10400, 0x10428, 0x2028, 0x41, 0x61, 0x7B, 0x60] {
        v.push(char::from_u32(c).unwrap().to_string());
    }
    // NUL and DEL: padding / sentinel values of fixed-size set representations
    v.push("\u{0}".to_string());
    v.push("\u{7f}".to_string());
    // the ends of the code space (sets that are "everything but one code point"), and the only
    // fold-table entry with stride 4 (U+01B8/01B9, U+01BC/01BD) with its non-folding neighbours
    // (and the first / last code point of every UTF-8 length: lowering to byte sets and byte
    // sequences switches representation there)
    for c in [0x1u32, 0x10FFFF, 0x10FFFE, 0x1B8, 0x1B9, 0x1BA, 0x1BB, 0x1BC, 0x1BD, 0x80, 0x81, 0xFF, 0x100, 0x7FF, 0x800, 0xFFFF, 0x10000] {
        v.push(char::from_u32(c).unwrap().to_string());
    }
    for s in ["xyz", "bac", "1\u{FE0F}\u{20E3}"] {
        v.push(s.to_string());
    }
    for s in ["", "ab", "aB", "AB", "ba", "abc", "kk", "a\u{17F}"] {
        v.push(s.to_string());
    }
    v.sort();
    v.dedup();
    v
}

const LEGACY_ITEMS: &[&str] = &["\u{80}", "\u{7f}-\u{80}", "\u{7ff}\u{800}", "\u{1}-\u{10FFFF}", "\u{0}-\u{10FFFE}", "ƻ-Ƽ", "ƹ-Ƽ", "a", "b", "k", "K", "-", "a-c", "A-C", "\\d", "\\w", "\\W", "\\s", "\\S", "\\D", "é", "\\u212A", "ſ", "σ", "µ", "^", "&", "\\b", "[", "\\]"];
const U_ITEMS: &[&str] = &["\u{80}", "\u{7f}-\u{80}", "\u{7ff}\u{800}", "\u{1}-\u{10FFFF}", "\u{0}-\u{10FFFE}", "ƻ-Ƽ", "ƹ-Ƽ", "a", "b", "k", "K", "\\-", "a-c", "A-C", "\\d", "\\w", "\\W", "\\s", "\\S", "é", "\\u212A", "ſ", "\\p{Lu}", "\\P{Lu}", "\\p{Ll}", "\\P{Ll}", "\\u{10400}", "σ", "µ", "^", "&"];
const V_LEAVES: &[&str] = &["\u{80}", "\u{7f}-\u{80}", "\u{7ff}\u{800}", "\u{1}-\u{10FFFF}", "\u{0}-\u{10FFFE}", "ƻ-Ƽ", "ƹ-Ƽ", "a", "b", "k", "K", "C", "\\-", "\\&", "a-c", "A-C", "\\d", "\\w", "\\W", "\\s", "é", "\\u212A", "ſ", "\\p{Lu}", "\\P{Lu}", "\\q{ab|a|}", "\\q{k}", "\\q{}", "\\q{AB}", "\\q{C}"];
const V_SMALL: &[&str] = &["a", "k", "K", "a-c", "\\w", "\\W", "\\p{Lu}", "\\q{ab|a}", "ſ", "\\q{}"];

pub fn build(cfg: &Cfg) -> Vec<(String, Flags)> {
    let mut out: Vec<(String, Flags)> = Vec::new();
    let f = |s: &str| Flags::from_str(s);
    let depth3 = !cfg.quick();
    // legacy and u brackets: sequences of up to 2 (quick) / 3 (thorough) items
    for (items, flagsets) in [(LEGACY_ITEMS, vec![f(""), f("i")]), (U_ITEMS, vec![f("u"), f("iu")])] {
        let mut seqs: Vec<String> = vec![String::new()];
        let mut frontier: Vec<String> = vec![String::new()];
        for _ in 0..(if depth3 { 3 } else { 2 }) {
            let mut next = Vec::new();
            for s in &frontier {
                for it in items {
                    // a leading ^ would be the negation marker; covered by `neg` below
                    if s.is_empty() && *it == "^" {
                        continue;
                    }
                    next.push(format!("{}{}", s, it));
                }
            }
            seqs.extend(next.iter().cloned());
            frontier = next;
        }
        for s in &seqs {
            for neg in [false, true] {
                for fl in &flagsets {
                    out.push((format!("^[{}{}]$", if neg { "^" } else { "" }, s), *fl));
                }
            }
        }
    }
    // v mode
    let mut operands: Vec<String> = V_LEAVES.iter().map(|s| s.to_string()).collect();
    for x in V_SMALL {
        operands.push(format!("[^{}]", x));
        for y in V_SMALL {
            operands.push(format!("[{}{}]", x, y));
            operands.push(format!("[{}&&{}]", x, y));
            operands.push(format!("[{}--{}]", x, y));
        }
    }
    let is_range = |s: &str| s.chars().count() == 3 && s.chars().nth(1) == Some('-') && !s.starts_with('\\');
    let mut exprs: Vec<String> = Vec::new();
    exprs.push(String::new());
    for a in &operands {
        exprs.push(a.clone());
    }
    let second: Vec<&String> = if depth3 { operands.iter().collect() } else { operands.iter().take(V_LEAVES.len() + 40).collect() };
    for a in &operands {
        for b in &second {
            exprs.push(format!("{}{}", a, b));
            if !is_range(a) && !is_range(b) {
                exprs.push(format!("{}&&{}", a, b));
                exprs.push(format!("{}--{}", a, b));
            }
        }
    }
    if depth3 {
        for a in V_SMALL {
            for b in V_SMALL {
                for c in V_SMALL {
                    if !is_range(a) && !is_range(b) && !is_range(c) {
                        exprs.push(format!("{}&&{}&&{}", a, b, c));
                        exprs.push(format!("{}--{}--{}", a, b, c));
                    }
                    exprs.push(format!("{}{}{}", a, b, c));
                }
            }
        }
    }
    let keep_mod: u64 = if cfg.quick() { 6 } else { 1 };
    for e in &exprs {
        for neg in [false, true] {
            for fl in [f("v"), f("iv")] {
                let p = format!("^[{}{}]$", if neg { "^" } else { "" }, e);
                if keep_mod > 1 && fnv64(p.as_bytes()) % keep_mod != (cfg.seed % keep_mod) && e.len() > 12 {
                    continue;
                }
                out.push((p, fl));
            }
        }
    }
    // Spelling equivalence: different spellings of one set used inside a larger pattern.
    for (spell, fl) in [("[a-c]", "v"), ("[abc]", "v"), ("[[a][b][c]]", "v"), ("[\\q{a|b|c}]", "v"), ("[a-z&&[a-c]]", "v"), ("[a-d--d]", "v"), ("[a-c]", "u"), ("[abc]", "u"), ("[a-c]", ""), ("[cba]", "")] {
        for ctx in ["^x?{}+$", "^(?:{}|ab)*$", "^(?<=^{}?)b?$", "^{}{{2}}$"] {
            out.push((ctx.replace("{}", spell), f(fl)));
        }
    }
    // Class strings of two or more characters are matched piecewise: the same set must be
    // recognised forwards and, inside a lookbehind, backwards.
    for (cls, fl) in [("[\\q{ab|xyz}c]", "v"), ("[\\q{ab}]", "v"), ("[\\q{ab|a}]", "v"), ("[\\q{aé|a}]", "iv"), ("[\\q{AB|xyz}]", "iv"), ("[\\q{12|ab}]", "iv"), ("[\\q{abc}\\q{ba}]", "v"), ("[\\q{ab|bac}--\\q{ab}]", "v"), ("\\p{Emoji_Keycap_Sequence}", "v"), ("[\\p{Emoji_Keycap_Sequence}--\\q{2\u{FE0F}\u{20E3}}]", "v")] {
        for ctx in ["^{}$", "(?<=^{})$", "(?<={})c", "(?<={})$", "(?<!{})c$", "(?<=(?={})..)", "(?<=^{}{})$", "^(?:{})+$"] {
            out.push((ctx.replace("{}", cls), f(fl)));
        }
    }
    out
}

pub fn run(cfg: &Cfg, rep: &mut Report) {
    let fixed = build(cfg);
    rep.add("class_expressions", fixed.len() as u64);
    let spec = StreamSpec { n_struct: 0, enum_nodes: 0, enum_flags: vec![], tweak: no_tweak, fixed, templates: false };
    let opts = DriveOpts { budget: 0, n_long: 0, n_plant: 0, ascii_only: false, sample_every: 997 };
    let c = C01 { limits: RefLimits { max_steps: 100_000, max_depth: 5_000 }, property: "C12", name: "c12", universe: Some(universe()), only_start_zero: true, nontrivial_iff_matched: true };
    drive(&c, cfg, rep, &spec, &opts);
}
