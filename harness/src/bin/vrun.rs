//! vrun: the runner binary. `vrun <check> [--tier quick|thorough] [--seed N] [--shard i/k]
//! [--resume-after IDX] [--scale F] [--replay FILE] [--opt k=v]...`
//! Prints the line protocol described in report.rs on stdout.

use std::collections::BTreeMap;
use vharness::report::{Cfg, Report, Tier};

fn main() {
    let args: Vec<String> = std::env::args().collect();
    if args.len() < 2 {
        eprintln!("usage: vrun <check> [options]");
        std::process::exit(2);
    }
    let mut cfg = Cfg {
        check: args[1].to_lowercase(),
        tier: Tier::Quick,
        seed: 1,
        shard: 0,
        nshards: 1,
        resume_after: None,
        scale: 1.0,
        replay: None,
        opts: BTreeMap::new(),
    };
    let mut i = 2;
    while i < args.len() {
        let a = args[i].as_str();
        let val = args.get(i + 1).cloned().unwrap_or_default();
        match a {
            "--tier" => {
                cfg.tier = if val == "thorough" { Tier::Thorough } else { Tier::Quick };
                i += 1;
            }
            "--seed" => {
                cfg.seed = val.parse().unwrap_or(1);
                i += 1;
            }
            "--shard" => {
                let mut it = val.split('/');
                cfg.shard = it.next().and_then(|s| s.parse().ok()).unwrap_or(0);
                cfg.nshards = it.next().and_then(|s| s.parse().ok()).unwrap_or(1);
                i += 1;
            }
            "--resume-after" => {
                cfg.resume_after = val.parse().ok();
                i += 1;
            }
            "--scale" => {
                cfg.scale = val.parse().unwrap_or(1.0);
                i += 1;
            }
            "--replay" => {
                let txt = std::fs::read_to_string(&val).unwrap_or_else(|e| {
                    eprintln!("cannot read {}: {}", val, e);
                    std::process::exit(2)
                });
                cfg.replay = Some(vharness::json::parse(&txt).unwrap_or_else(|e| {
                    eprintln!("bad replay json: {}", e);
                    std::process::exit(2)
                }));
                i += 1;
            }
            "--opt" => {
                if let Some((k, v)) = val.split_once('=') {
                    cfg.opts.insert(k.to_string(), v.to_string());
                }
                i += 1;
            }
            _ => {
                eprintln!("unknown argument {}", a);
                std::process::exit(2);
            }
        }
        i += 1;
    }
    vharness::engine::install_quiet_panic_hook();
    // Everything runs on a thread with a large stack: the reference matcher recurses per character.
    // C07 runs with the stack of an ordinary main thread (8 MiB): stack exhaustion in the
    // compiler is one of the events it looks for.
    let stack = if cfg.check == "c07" { 8 << 20 } else if cfg!(miri) { 64 << 20 } else { 1 << 30 };
    let handle = std::thread::Builder::new()
        .stack_size(stack)
        .spawn(move || {
            let mut rep = Report::new();
            let r = vharness::checks::run(&cfg, &mut rep);
            rep.finish();
            r
        })
        .expect("spawn worker");
    match handle.join() {
        Ok(Ok(())) => {}
        Ok(Err(e)) => {
            eprintln!("vrun: {}", e);
            std::process::exit(2);
        }
        Err(_) => {
            eprintln!("vrun: worker thread panicked (harness bug)");
            std::process::exit(3);
        }
    }
}
