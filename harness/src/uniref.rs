//! Independent Unicode reference data ("uniref").
//!
//! Nothing here reads regress's `unicodetables.rs`. Sources:
//!  * Rust std (Unicode 17.0): `char::to_uppercase` / `to_lowercase`, `is_alphabetic`, ...
//!  * regex-syntax 0.8.11 (UCD 16.0): general categories, scripts, script extensions, binary
//!    properties, age, simple case folding orbits.
//!  * unicode-ident 1.0.24 (Unicode 17.0): XID_Start / XID_Continue.
//!
//! Case relations:
//!  * legacy (`i` without `u`/`v`): ECMAScript Canonicalize = toUpperCase, unless the result is
//!    not a single code point or maps a non-ASCII code point to ASCII. std's `to_uppercase` is the
//!    full Unicode 17 mapping, which is exactly what the specification refers to.
//!  * unicode (`iu`/`iv`): two code points are equivalent iff they have the same simple case
//!    folding, i.e. lie in the same "orbit". Orbits come from regex-syntax (16.0); case pairs among
//!    code points that were unassigned in 16.0 are added from std 17's single-character
//!    lower/upper mappings (simple foldings of assigned characters are frozen by the Unicode
//!    stability policy, so the 16.0 orbits of old characters can only grow by new characters).

use crate::rangeset::{RangeSet, MAX_CP};
use std::collections::HashMap;
use std::sync::OnceLock;

#[cfg(feature = "uni")]
use regex_syntax::hir::{Class, ClassUnicode, ClassUnicodeRange, HirKind};

pub struct CaseData {
    /// canon value -> all code points with that canon value (only classes with > 1 member).
    legacy_classes: HashMap<u32, Vec<u32>>,
    /// code point -> orbit (sorted, includes the code point); only for orbits with > 1 member.
    orbits: HashMap<u32, std::sync::Arc<Vec<u32>>>,
    pub nontrivial_legacy: RangeSet,
    pub nontrivial_unicode: RangeSet,
    /// Code points whose orbit came (partly) from std 17 rather than regex-syntax 16.
    pub from_std17: RangeSet,
}

/// ECMAScript Canonicalize for non-Unicode ignoreCase mode (22.2.2.7.3 step 3-...).
pub fn canon_legacy(c: u32) -> u32 {
    let Some(ch) = char::from_u32(c) else { return c };
    let mut it = ch.to_uppercase();
    let Some(u) = it.next() else { return c };
    if it.next().is_some() {
        return c;
    }
    let u = u as u32;
    if c >= 128 && u < 128 {
        return c;
    }
    u
}

fn single_lower(ch: char) -> Option<char> {
    let mut it = ch.to_lowercase();
    let l = it.next()?;
    if it.next().is_some() {
        None
    } else {
        Some(l)
    }
}
fn single_upper(ch: char) -> Option<char> {
    let mut it = ch.to_uppercase();
    let l = it.next()?;
    if it.next().is_some() {
        None
    } else {
        Some(l)
    }
}

#[cfg(feature = "uni")]
fn rs_orbit(c: char) -> Vec<u32> {
    let mut cls = ClassUnicode::new([ClassUnicodeRange::new(c, c)]);
    cls.case_fold_simple();
    let mut v = Vec::new();
    for r in cls.ranges() {
        for x in (r.start() as u32)..=(r.end() as u32) {
            v.push(x);
        }
    }
    v
}

/// Parse a regex-syntax pattern that denotes a single class, returning its code points.
#[cfg(feature = "uni")]
pub fn rs16_class(pat: &str) -> Option<RangeSet> {
    let hir = regex_syntax::ParserBuilder::new().unicode(true).utf8(false).build().parse(pat).ok()?;
    match hir.kind() {
        HirKind::Class(Class::Unicode(c)) => Some(RangeSet::from_ranges(c.ranges().iter().map(|r| (r.start() as u32, r.end() as u32)))),
        HirKind::Class(Class::Bytes(c)) => Some(RangeSet::from_ranges(c.ranges().iter().map(|r| (r.start() as u32, r.end() as u32)))),
        HirKind::Literal(l) => {
            let s = std::str::from_utf8(&l.0).ok()?;
            let mut it = s.chars();
            let c = it.next()?;
            if it.next().is_some() {
                return None;
            }
            Some(RangeSet::single(c as u32))
        }
        HirKind::Empty => None,
        _ => None,
    }
}

#[cfg(not(feature = "uni"))]
pub fn rs16_class(_pat: &str) -> Option<RangeSet> {
    None
}

/// Code points assigned (gc != Cn) in Unicode 16.0 according to regex-syntax.
pub fn assigned16() -> &'static RangeSet {
    static S: OnceLock<RangeSet> = OnceLock::new();
    S.get_or_init(|| rs16_class(r"\P{Cn}").expect("regex-syntax gc tables"))
}

fn build_case_data() -> CaseData {
    // legacy
    let mut by_canon: HashMap<u32, Vec<u32>> = HashMap::new();
    for c in 0..=MAX_CP {
        if char::from_u32(c).is_none() {
            continue;
        }
        let k = canon_legacy(c);
        if k != c {
            by_canon.entry(k).or_default().push(c);
        }
    }
    let mut legacy_classes = HashMap::new();
    let mut nl = Vec::new();
    for (k, mut v) in by_canon {
        v.push(k);
        v.sort_unstable();
        v.dedup();
        for &m in &v {
            nl.push((m, m));
        }
        legacy_classes.insert(k, v);
    }
    // unicode orbits: union-find over edges
    let mut parent: HashMap<u32, u32> = HashMap::new();
    fn find(p: &mut HashMap<u32, u32>, x: u32) -> u32 {
        let mut r = x;
        while let Some(&n) = p.get(&r) {
            if n == r {
                break;
            }
            r = n;
        }
        // path compression
        let mut y = x;
        while let Some(&n) = p.get(&y) {
            if n == r {
                break;
            }
            p.insert(y, r);
            y = n;
        }
        r
    }
    fn union(p: &mut HashMap<u32, u32>, a: u32, b: u32) {
        p.entry(a).or_insert(a);
        p.entry(b).or_insert(b);
        let ra = find(p, a);
        let rb = find(p, b);
        if ra != rb {
            let (lo, hi) = if ra < rb { (ra, rb) } else { (rb, ra) };
            p.insert(hi, lo);
        }
    }
    let mut std17 = Vec::new();
    #[cfg(feature = "uni")]
    {
        let assigned = assigned16();
        for &(a, b) in assigned.ranges() {
            for c in a..=b {
                let Some(ch) = char::from_u32(c) else { continue };
                // Cheap prefilter: characters with any case behaviour in std 17 or known to regex-syntax.
                let o = rs_orbit(ch);
                if o.len() > 1 {
                    for &m in &o {
                        union(&mut parent, c, m);
                    }
                }
            }
        }
        // Age-17 additions from std.
        for c in 0..=MAX_CP {
            let Some(ch) = char::from_u32(c) else { continue };
            if assigned.contains(c) {
                continue;
            }
            for m in [single_lower(ch), single_upper(ch)].into_iter().flatten() {
                if m != ch {
                    union(&mut parent, c, m as u32);
                    std17.push((c, c));
                    std17.push((m as u32, m as u32));
                }
            }
        }
    }
    #[cfg(not(feature = "uni"))]
    {
        // Fallback without regex-syntax: derive everything from std's single-character mappings.
        for c in 0..=MAX_CP {
            let Some(ch) = char::from_u32(c) else { continue };
            for m in [single_lower(ch), single_upper(ch)].into_iter().flatten() {
                if m != ch {
                    union(&mut parent, c, m as u32);
                    std17.push((c, c));
                }
            }
        }
    }
    let keys: Vec<u32> = parent.keys().copied().collect();
    let mut groups: HashMap<u32, Vec<u32>> = HashMap::new();
    for k in keys {
        let r = find(&mut parent, k);
        groups.entry(r).or_default().push(k);
    }
    let mut orbits = HashMap::new();
    let mut nu = Vec::new();
    for (_, mut v) in groups {
        v.sort_unstable();
        v.dedup();
        if v.len() < 2 {
            continue;
        }
        let arc = std::sync::Arc::new(v);
        for &m in arc.iter() {
            nu.push((m, m));
            orbits.insert(m, arc.clone());
        }
    }
    CaseData {
        legacy_classes,
        orbits,
        nontrivial_legacy: RangeSet::from_ranges(nl),
        nontrivial_unicode: RangeSet::from_ranges(nu),
        from_std17: RangeSet::from_ranges(std17),
    }
}

pub fn case_data() -> &'static CaseData {
    static S: OnceLock<CaseData> = OnceLock::new();
    S.get_or_init(build_case_data)
}

impl CaseData {
    /// All code points canonically equivalent to `c` in the given mode (always contains `c`).
    pub fn class_of(&self, c: u32, unicode: bool) -> Vec<u32> {
        if unicode {
            match self.orbits.get(&c) {
                Some(o) => o.as_ref().clone(),
                None => vec![c],
            }
        } else {
            match self.legacy_classes.get(&canon_legacy(c)) {
                Some(v) => v.clone(),
                None => vec![c],
            }
        }
    }
    /// A canonical representative of the equivalence class of `c` (the smallest member).
    pub fn rep(&self, c: u32, unicode: bool) -> u32 {
        if unicode {
            match self.orbits.get(&c) {
                Some(o) => o[0],
                None => c,
            }
        } else {
            match self.legacy_classes.get(&canon_legacy(c)) {
                Some(v) => v[0],
                None => c,
            }
        }
    }
    pub fn equivalent(&self, a: u32, b: u32, unicode: bool) -> bool {
        a == b || self.rep(a, unicode) == self.rep(b, unicode)
    }
    pub fn nontrivial(&self, unicode: bool) -> &RangeSet {
        if unicode {
            &self.nontrivial_unicode
        } else {
            &self.nontrivial_legacy
        }
    }
    /// The union of the equivalence classes of all members of `set`.
    pub fn saturate(&self, set: &RangeSet, unicode: bool) -> RangeSet {
        let nt = self.nontrivial(unicode);
        let touched = set.intersect(nt);
        if touched.is_empty() {
            return set.clone();
        }
        let mut extra = Vec::new();
        for c in touched.iter() {
            for m in self.class_of(c, unicode) {
                extra.push((m, m));
            }
        }
        set.union(&RangeSet::from_ranges(extra))
    }
    /// Members of `set` whose whole equivalence class lies in `set` (the "interior").
    pub fn interior(&self, set: &RangeSet, unicode: bool) -> RangeSet {
        self.saturate(&set.complement(), unicode).complement()
    }
}

// ---------------------------------------------------------------------------------------------
// Properties used by the reference matcher.

/// ES WhiteSpace + LineTerminator (the `\s` class). Closed form from the specification:
/// TAB, VT, FF, SP, NBSP, ZWNBSP, USP (= gc Zs) and LF, CR, LS, PS.
pub fn es_space() -> &'static RangeSet {
    static S: OnceLock<RangeSet> = OnceLock::new();
    S.get_or_init(|| {
        // gc=Zs in Unicode 17 (unchanged since 6.3 apart from U+180E leaving in 6.3):
        // 0020, 00A0, 1680, 2000-200A, 202F, 205F, 3000. std's char::is_whitespace = White_Space,
        // which is Zs + Zl + Zp + 0009-000D + 0085; we use it as a cross-check below.
        let v = [
            (0x09, 0x0D),
            (0x20, 0x20),
            (0xA0, 0xA0),
            (0x1680, 0x1680),
            (0x2000, 0x200A),
            (0x2028, 0x2029),
            (0x202F, 0x202F),
            (0x205F, 0x205F),
            (0x3000, 0x3000),
            (0xFEFF, 0xFEFF),
        ];
        let s = RangeSet::from_ranges(v);
        // Cross-check against std 17 White_Space: \s = White_Space - {0085} + {FEFF}.
        let mut ws = Vec::new();
        for c in 0..=MAX_CP {
            if let Some(ch) = char::from_u32(c) {
                if ch.is_whitespace() {
                    ws.push((c, c));
                }
            }
        }
        let mut ws = RangeSet::from_ranges(ws).subtract(&RangeSet::single(0x85));
        ws.add(0xFEFF);
        assert_eq!(ws, s, "ES \\s closed form disagrees with std White_Space");
        s
    })
}

pub fn es_digit() -> RangeSet {
    RangeSet::from_range(0x30, 0x39)
}

pub fn es_word_basic() -> RangeSet {
    RangeSet::from_ranges([(0x30, 0x39), (0x41, 0x5A), (0x5F, 0x5F), (0x61, 0x7A)])
}

pub fn is_line_terminator(c: u32) -> bool {
    matches!(c, 0x0A | 0x0D | 0x2028 | 0x2029)
}

/// ID_Start for group names: ID_Start(16.0) ∪ XID_Start(17.0). ID_Start only ever grows, and
/// XID_Start ⊆ ID_Start, so this is a subset of ID_Start(17.0) that is exact on everything
/// assigned in 16.0 and on new code points whose XID and ID status coincide.
pub fn is_id_start(c: u32) -> bool {
    static S: OnceLock<RangeSet> = OnceLock::new();
    let s = S.get_or_init(|| rs16_class(r"\p{ID_Start}").unwrap_or_default());
    if s.contains(c) {
        return true;
    }
    #[cfg(feature = "uni")]
    {
        if let Some(ch) = char::from_u32(c) {
            return unicode_ident::is_xid_start(ch);
        }
    }
    false
}

pub fn is_id_continue(c: u32) -> bool {
    static S: OnceLock<RangeSet> = OnceLock::new();
    let s = S.get_or_init(|| rs16_class(r"\p{ID_Continue}").unwrap_or_default());
    if s.contains(c) {
        return true;
    }
    #[cfg(feature = "uni")]
    {
        if let Some(ch) = char::from_u32(c) {
            return unicode_ident::is_xid_continue(ch);
        }
    }
    false
}

/// Result of looking up a property escape for use by the reference matcher.
#[derive(Clone, Debug)]
pub enum PropLookup {
    /// A property of code points. `exact17`: known to be the Unicode 17 set; otherwise it is the
    /// 16.0 set, which agrees with 17.0 on code points assigned in 16.0 except for pinned drift.
    Set { set: RangeSet, exact17: bool },
    /// A property of strings (only valid under `v`); contents are only available for
    /// Emoji_Keycap_Sequence (closed form), otherwise None.
    Strings(Option<Vec<Vec<u32>>>),
    /// A valid name, but the reference model has no independent data for it.
    Unavailable,
    /// Not an ECMAScript property name / value.
    Invalid,
}

pub const STRING_PROPERTIES: [&str; 7] = [
    "Basic_Emoji",
    "Emoji_Keycap_Sequence",
    "RGI_Modifier_Sequence",
    "RGI_Flag_Sequence",
    "RGI_Tag_Sequence",
    "RGI_ZWJ_Sequence",
    "RGI_Emoji",
];

pub fn keycap_sequences() -> Vec<Vec<u32>> {
    let mut v = Vec::new();
    for c in "#*0123456789".chars() {
        v.push(vec![c as u32, 0xFE0F, 0x20E3]);
    }
    v
}
