//! Minimal JSON value, writer and parser (no dependencies).

use std::collections::BTreeMap;
use std::fmt::Write;

#[derive(Clone, Debug, PartialEq)]
pub enum J {
    Null,
    Bool(bool),
    Int(i64),
    Float(f64),
    Str(String),
    Arr(Vec<J>),
    Obj(Vec<(String, J)>),
}

impl J {
    pub fn obj() -> J {
        J::Obj(Vec::new())
    }
    pub fn set(mut self, k: &str, v: impl Into<J>) -> J {
        if let J::Obj(ref mut m) = self {
            let v = v.into();
            if let Some(e) = m.iter_mut().find(|(kk, _)| kk == k) {
                e.1 = v;
            } else {
                m.push((k.to_string(), v));
            }
        }
        self
    }
    pub fn put(&mut self, k: &str, v: impl Into<J>) {
        if let J::Obj(ref mut m) = self {
            let v = v.into();
            if let Some(e) = m.iter_mut().find(|(kk, _)| kk == k) {
                e.1 = v;
            } else {
                m.push((k.to_string(), v));
            }
        }
    }
    pub fn get(&self, k: &str) -> Option<&J> {
        match self {
            J::Obj(m) => m.iter().find(|(kk, _)| kk == k).map(|(_, v)| v),
            _ => None,
        }
    }
    pub fn as_str(&self) -> Option<&str> {
        match self {
            J::Str(s) => Some(s),
            _ => None,
        }
    }
    pub fn as_i64(&self) -> Option<i64> {
        match self {
            J::Int(i) => Some(*i),
            J::Float(f) => Some(*f as i64),
            _ => None,
        }
    }
    pub fn as_bool(&self) -> Option<bool> {
        match self {
            J::Bool(b) => Some(*b),
            _ => None,
        }
    }
    pub fn as_arr(&self) -> Option<&[J]> {
        match self {
            J::Arr(a) => Some(a),
            _ => None,
        }
    }
    pub fn to_string(&self) -> String {
        let mut s = String::new();
        self.write(&mut s);
        s
    }
    pub fn write(&self, out: &mut String) {
        match self {
            J::Null => out.push_str("null"),
            J::Bool(b) => out.push_str(if *b { "true" } else { "false" }),
            J::Int(i) => {
                let _ = write!(out, "{}", i);
            }
            J::Float(f) => {
                if f.is_finite() {
                    let _ = write!(out, "{}", f);
                } else {
                    out.push_str("null");
                }
            }
            J::Str(s) => write_str(out, s),
            J::Arr(a) => {
                out.push('[');
                for (i, v) in a.iter().enumerate() {
                    if i > 0 {
                        out.push(',');
                    }
                    v.write(out);
                }
                out.push(']');
            }
            J::Obj(m) => {
                out.push('{');
                for (i, (k, v)) in m.iter().enumerate() {
                    if i > 0 {
                        out.push(',');
                    }
                    write_str(out, k);
                    out.push(':');
                    v.write(out);
                }
                out.push('}');
            }
        }
    }
}

fn write_str(out: &mut String, s: &str) {
    out.push('"');
    for c in s.chars() {
        match c {
            '"' => out.push_str("\\\""),
            '\\' => out.push_str("\\\\"),
            '\n' => out.push_str("\\n"),
            '\r' => out.push_str("\\r"),
            '\t' => out.push_str("\\t"),
            c if (c as u32) < 0x20 || c == '\u{2028}' || c == '\u{2029}' || c == '\u{7f}' => {
                let _ = write!(out, "\\u{:04x}", c as u32);
            }
            c => out.push(c),
        }
    }
    out.push('"');
}

impl From<bool> for J {
    fn from(b: bool) -> J {
        J::Bool(b)
    }
}
impl From<i64> for J {
    fn from(i: i64) -> J {
        J::Int(i)
    }
}
impl From<u64> for J {
    fn from(i: u64) -> J {
        J::Int(i as i64)
    }
}
impl From<usize> for J {
    fn from(i: usize) -> J {
        J::Int(i as i64)
    }
}
impl From<u32> for J {
    fn from(i: u32) -> J {
        J::Int(i as i64)
    }
}
impl From<i32> for J {
    fn from(i: i32) -> J {
        J::Int(i as i64)
    }
}
impl From<f64> for J {
    fn from(f: f64) -> J {
        J::Float(f)
    }
}
impl From<&str> for J {
    fn from(s: &str) -> J {
        J::Str(s.to_string())
    }
}
impl From<String> for J {
    fn from(s: String) -> J {
        J::Str(s)
    }
}
impl From<&String> for J {
    fn from(s: &String) -> J {
        J::Str(s.clone())
    }
}
impl<T: Into<J>> From<Vec<T>> for J {
    fn from(v: Vec<T>) -> J {
        J::Arr(v.into_iter().map(Into::into).collect())
    }
}
impl<T: Into<J>> From<Option<T>> for J {
    fn from(v: Option<T>) -> J {
        match v {
            Some(x) => x.into(),
            None => J::Null,
        }
    }
}
impl<T: Into<J> + Clone> From<&[T]> for J {
    fn from(v: &[T]) -> J {
        J::Arr(v.iter().cloned().map(Into::into).collect())
    }
}
impl From<BTreeMap<String, u64>> for J {
    fn from(m: BTreeMap<String, u64>) -> J {
        J::Obj(m.into_iter().map(|(k, v)| (k, J::from(v))).collect())
    }
}
impl From<&BTreeMap<String, u64>> for J {
    fn from(m: &BTreeMap<String, u64>) -> J {
        J::Obj(m.iter().map(|(k, v)| (k.clone(), J::from(*v))).collect())
    }
}

// ---------- parser ----------

pub fn parse(s: &str) -> Result<J, String> {
    let b: Vec<char> = s.chars().collect();
    let mut p = P { b: &b, i: 0 };
    p.ws();
    let v = p.val()?;
    p.ws();
    if p.i != b.len() {
        return Err(format!("trailing data at {}", p.i));
    }
    Ok(v)
}

struct P<'a> {
    b: &'a [char],
    i: usize,
}

impl<'a> P<'a> {
    fn ws(&mut self) {
        while self.i < self.b.len() && self.b[self.i].is_whitespace() {
            self.i += 1;
        }
    }
    fn val(&mut self) -> Result<J, String> {
        self.ws();
        let c = *self.b.get(self.i).ok_or("eof")?;
        match c {
            '{' => {
                self.i += 1;
                let mut m = Vec::new();
                self.ws();
                if self.b.get(self.i) == Some(&'}') {
                    self.i += 1;
                    return Ok(J::Obj(m));
                }
                loop {
                    self.ws();
                    let k = match self.val()? {
                        J::Str(s) => s,
                        _ => return Err("key".into()),
                    };
                    self.ws();
                    if self.b.get(self.i) != Some(&':') {
                        return Err("colon".into());
                    }
                    self.i += 1;
                    let v = self.val()?;
                    m.push((k, v));
                    self.ws();
                    match self.b.get(self.i) {
                        Some(',') => self.i += 1,
                        Some('}') => {
                            self.i += 1;
                            return Ok(J::Obj(m));
                        }
                        _ => return Err("obj".into()),
                    }
                }
            }
            '[' => {
                self.i += 1;
                let mut a = Vec::new();
                self.ws();
                if self.b.get(self.i) == Some(&']') {
                    self.i += 1;
                    return Ok(J::Arr(a));
                }
                loop {
                    a.push(self.val()?);
                    self.ws();
                    match self.b.get(self.i) {
                        Some(',') => self.i += 1,
                        Some(']') => {
                            self.i += 1;
                            return Ok(J::Arr(a));
                        }
                        _ => return Err("arr".into()),
                    }
                }
            }
            '"' => {
                self.i += 1;
                let mut s = String::new();
                loop {
                    let c = *self.b.get(self.i).ok_or("eof in string")?;
                    self.i += 1;
                    match c {
                        '"' => return Ok(J::Str(s)),
                        '\\' => {
                            let e = *self.b.get(self.i).ok_or("eof in escape")?;
                            self.i += 1;
                            match e {
                                'n' => s.push('\n'),
                                'r' => s.push('\r'),
                                't' => s.push('\t'),
                                'b' => s.push('\u{8}'),
                                'f' => s.push('\u{c}'),
                                'u' => {
                                    let mut rd = |p: &mut P| -> Result<u32, String> {
                                        let h: String = p.b.get(p.i..p.i + 4).ok_or("eof in \\u")?.iter().collect();
                                        p.i += 4;
                                        u32::from_str_radix(&h, 16).map_err(|e| e.to_string())
                                    };
                                    let mut v = rd(self)?;
                                    if (0xD800..0xDC00).contains(&v)
                                        && self.b.get(self.i) == Some(&'\\')
                                        && self.b.get(self.i + 1) == Some(&'u')
                                    {
                                        self.i += 2;
                                        let lo = rd(self)?;
                                        v = 0x10000 + ((v - 0xD800) << 10) + (lo.wrapping_sub(0xDC00) & 0x3FF);
                                    }
                                    s.push(char::from_u32(v).unwrap_or('\u{FFFD}'));
                                }
                                o => s.push(o),
                            }
                        }
                        c => s.push(c),
                    }
                }
            }
            't' if self.b[self.i..].starts_with(&['t', 'r', 'u', 'e']) => {
                self.i += 4;
                Ok(J::Bool(true))
            }
            'f' if self.b[self.i..].starts_with(&['f', 'a', 'l', 's', 'e']) => {
                self.i += 5;
                Ok(J::Bool(false))
            }
            'n' if self.b[self.i..].starts_with(&['n', 'u', 'l', 'l']) => {
                self.i += 4;
                Ok(J::Null)
            }
            _ => {
                let st = self.i;
                while self.i < self.b.len() && (self.b[self.i].is_ascii_digit() || "+-.eE".contains(self.b[self.i])) {
                    self.i += 1;
                }
                let t: String = self.b[st..self.i].iter().collect();
                if let Ok(i) = t.parse::<i64>() {
                    Ok(J::Int(i))
                } else {
                    t.parse::<f64>().map(J::Float).map_err(|e| format!("num {:?}: {}", t, e))
                }
            }
        }
    }
}
