//! A facade offering the part of the `regress` API that the repository's test files use, backed
//! by the reference model (esref). Used only to calibrate the reference model against the
//! V8/PCRE-derived expectations in /repo/tests.

use vharness::engine::{to_cps, CpIndex};
use vharness::esref::{self, RefLimits, RefOutcome};

pub type Range = core::ops::Range<usize>;

#[derive(Debug, Copy, Clone, Default)]
pub struct Flags {
    pub icase: bool,
    pub multiline: bool,
    pub dot_all: bool,
    pub no_opt: bool,
    pub unicode: bool,
    pub unicode_sets: bool,
}

impl From<&str> for Flags {
    fn from(s: &str) -> Flags {
        let mut f = Flags::default();
        for c in s.chars() {
            match c {
                'i' => f.icase = true,
                'm' => f.multiline = true,
                's' => f.dot_all = true,
                'u' => f.unicode = true,
                'v' => f.unicode_sets = true,
                _ => {}
            }
        }
        f
    }
}

/// Error texts are not part of what is calibrated: `contains` accepts any expected text.
#[derive(Debug, Clone, PartialEq, Eq)]
pub struct ErrText(pub String);
impl ErrText {
    pub fn contains(&self, _s: &str) -> bool {
        true
    }
    pub fn as_str(&self) -> &str {
        &self.0
    }
}
impl std::fmt::Display for ErrText {
    fn fmt(&self, f: &mut std::fmt::Formatter) -> std::fmt::Result {
        f.write_str(&self.0)
    }
}

#[derive(Debug, Clone, PartialEq, Eq)]
pub struct Error {
    pub text: ErrText,
}

impl std::fmt::Display for Error {
    fn fmt(&self, f: &mut std::fmt::Formatter) -> std::fmt::Result {
        f.write_str(&self.text.0)
    }
}

fn err(s: &str) -> Error {
    Error { text: ErrText(s.to_string()) }
}

#[derive(Debug, Clone)]
pub struct Match {
    pub range: Range,
    pub captures: Vec<Option<Range>>,
    names: Vec<Option<String>>,
}

impl Match {
    pub fn range(&self) -> Range {
        self.range.clone()
    }
    pub fn start(&self) -> usize {
        self.range.start
    }
    pub fn end(&self) -> usize {
        self.range.end
    }
    pub fn as_str<'t>(&self, t: &'t str) -> &'t str {
        &t[self.range()]
    }
    pub fn group(&self, i: usize) -> Option<Range> {
        if i == 0 {
            Some(self.range())
        } else {
            self.captures.get(i - 1).cloned().flatten()
        }
    }
    pub fn groups(&self) -> std::vec::IntoIter<Option<Range>> {
        let mut v = vec![Some(self.range())];
        v.extend(self.captures.iter().cloned());
        v.into_iter()
    }
    pub fn named_group(&self, name: &str) -> Option<Range> {
        if name.is_empty() {
            return None;
        }
        for (i, n) in self.names.iter().enumerate() {
            if n.as_deref() == Some(name) {
                if let Some(r) = &self.captures[i] {
                    return Some(r.clone());
                }
            }
        }
        None
    }
    pub fn named_groups(&self) -> std::vec::IntoIter<(&str, Option<Range>)> {
        let mut out: Vec<(&str, Option<Range>)> = Vec::new();
        for n in self.names.iter().flatten() {
            if out.iter().any(|(k, _)| k == n) {
                continue;
            }
            out.push((n.as_str(), self.named_group(n)));
        }
        out.into_iter()
    }
}

#[derive(Debug, Clone)]
pub struct Regex {
    pat: std::sync::Arc<esref::Pattern>,
}

fn unsupported(why: &str) -> ! {
    panic!("ESREF-UNSUPPORTED: {}", why)
}

impl Regex {
    pub fn new(p: &str) -> Result<Regex, Error> {
        Self::with_flags(p, Flags::default())
    }
    pub fn with_flags<F: Into<Flags>>(p: &str, f: F) -> Result<Regex, Error> {
        Self::from_unicode(p.chars().map(u32::from), f)
    }
    pub fn from_unicode<I: Iterator<Item = u32> + Clone, F: Into<Flags>>(p: I, f: F) -> Result<Regex, Error> {
        let f: Flags = f.into();
        let cps: Vec<u32> = p.collect();
        let flags = esref::Flags { i: f.icase, m: f.multiline, s: f.dot_all, u: f.unicode && !f.unicode_sets, v: f.unicode_sets, n: false };
        match esref::parse(&cps, flags) {
            Ok(p) => {
                // regress's documented resource limits are not part of the grammar
                if p.ngroups > 65_535 {
                    return Err(err("Capture group count limit exceeded"));
                }
                if p.features.quantifiers > 65_535 {
                    return Err(err("Loop count limit exceeded"));
                }
                if esref::parser::nesting_depth(&cps, flags).unwrap_or(0) > 256 {
                    return Err(err("Regular expression is too deeply nested"));
                }
                Ok(Regex { pat: std::sync::Arc::new(p) })
            }
            Err(e) => Err(err(&e.msg)),
        }
    }
    fn all_from(&self, text: &str, start: usize) -> Vec<Match> {
        assert!(start >= text.len() || text.is_char_boundary(start), "start index is not on a char boundary");
        let idx = CpIndex::new(text);
        let Some(ci) = idx.cp_of_byte(start.min(text.len())) else { return vec![] };
        if start > text.len() {
            return vec![];
        }
        let cps = to_cps(text);
        let pat = self.pat.clone();
        let (r, _) = esref::find_all(&pat, &cps, ci, RefLimits { max_steps: 50_000_000, max_depth: 100_000 }, 100_000);
        match r {
            Ok(ms) => ms
                .iter()
                .map(|m| Match {
                    range: idx.byte(m.start)..idx.byte(m.end),
                    captures: m.caps.iter().map(|c| c.map(|(a, b)| idx.byte(a)..idx.byte(b))).collect(),
                    names: self.pat.group_names.iter().skip(1).cloned().collect(),
                })
                .collect(),
            Err(RefOutcome::Unsupported(w)) => unsupported(&w),
            Err(RefOutcome::Inconclusive(w)) => unsupported(&w),
            Err(_) => vec![],
        }
    }
    pub fn find(&self, t: &str) -> Option<Match> {
        self.all_from(t, 0).into_iter().next()
    }
    pub fn find_iter(&self, t: &str) -> std::vec::IntoIter<Match> {
        self.all_from(t, 0).into_iter()
    }
    pub fn find_from(&self, t: &str, start: usize) -> std::vec::IntoIter<Match> {
        self.all_from(t, start).into_iter()
    }
    pub fn find_ascii(&self, t: &str) -> Option<Match> {
        self.find(t)
    }
    pub fn find_iter_ascii(&self, t: &str) -> std::vec::IntoIter<Match> {
        self.find_iter(t)
    }
    pub fn find_from_ascii(&self, t: &str, start: usize) -> std::vec::IntoIter<Match> {
        self.find_from(t, start)
    }
}

impl std::str::FromStr for Regex {
    type Err = Error;
    fn from_str(s: &str) -> Result<Regex, Error> {
        Regex::new(s)
    }
}

pub mod backends {
    use super::{Match, Regex};
    pub struct BacktrackExecutor;
    pub struct PikeVMExecutor;
    pub fn find<E>(re: &Regex, text: &str, start: usize) -> std::vec::IntoIter<Match> {
        re.find_from(text, start)
    }
    pub fn find_ascii<E>(re: &Regex, text: &str, start: usize) -> std::vec::IntoIter<Match> {
        re.find_from(text, start)
    }
}

pub fn escape(text: &str) -> String {
    let mut r = String::new();
    for c in text.chars() {
        if matches!(c, '\\' | '^' | '$' | '.' | '|' | '?' | '*' | '+' | '(' | ')' | '[' | ']' | '{' | '}') {
            r.push('\\');
        }
        r.push(c);
    }
    r
}
