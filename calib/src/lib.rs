// the tests are the content of this crate
